package main

import (
	"bufio"
	"encoding/hex"
	"fmt"
	"math"
	"os"
	"sort"
	"strings"
)

// out is the case sink: one line per case, "AREA op args… => impl…".
type sink struct {
	w     *bufio.Writer
	n     int
	dist  map[string]int // distribution counters printed into the evidence
	limit int
}

func newSink(path string) (*sink, error) {
	f, err := os.Create(path)
	if err != nil {
		return nil, err
	}
	return &sink{w: bufio.NewWriterSize(f, 1<<20), dist: map[string]int{}}, nil
}

func (s *sink) emit(area, op string, impl string) {
	fmt.Fprintf(s.w, "%s %s => %s\n", area, op, impl)
	s.n++
}

func (s *sink) count(key string) { s.dist[key]++ }

func (s *sink) close() error { return s.w.Flush() }

func (s *sink) distLines() []string {
	keys := make([]string, 0, len(s.dist))
	for k := range s.dist {
		keys = append(keys, k)
	}
	sort.Strings(keys)
	res := make([]string, 0, len(keys))
	for _, k := range keys {
		res = append(res, fmt.Sprintf("%s=%d", k, s.dist[k]))
	}
	return res
}

func hexBytes(b []byte) string {
	if len(b) == 0 {
		return "-"
	}
	return hex.EncodeToString(b)
}

func hexStr(s string) string { return hexBytes([]byte(s)) }

// hexFloat: floats cross the protocol as IEEE bits; NaN payloads are not compared.
func hexFloat(f float64) string {
	if math.IsNaN(f) {
		return "nan"
	}
	return fmt.Sprintf("%016x", math.Float64bits(f))
}

func rawBits64(f float64) string { return fmt.Sprintf("%016x", math.Float64bits(f)) }

func joinTok(xs ...string) string { return strings.Join(xs, " ") }

// classify runs f and maps its completion to ok / err / panic:<msg>.
func classify(f func() error) (cls string, err error) {
	defer func() {
		if r := recover(); r != nil {
			cls = "panic"
			err = fmt.Errorf("%v", r)
		}
	}()
	if e := f(); e != nil {
		return "err", e
	}
	return "ok", nil
}
