package main

import (
	"fmt"
	"math"
	"strconv"
	"strings"

	"github.com/stevenh/tracktools/pkg/gopro/gpmf/geo"
	"github.com/tidwall/geodesic"
)

func init() {
	areas["GE"] = &area{gen: genGE, exec: execGE, corpus: corpusGE}
}

// ---- independent oracle: 3-D unit vectors on the sphere ------------------------------------

type v3 [3]float64

func toVec(latDeg, lonDeg float64) v3 {
	la, lo := latDeg*math.Pi/180, lonDeg*math.Pi/180
	return v3{math.Cos(la) * math.Cos(lo), math.Cos(la) * math.Sin(lo), math.Sin(la)}
}
func vcross(a, b v3) v3 {
	return v3{a[1]*b[2] - a[2]*b[1], a[2]*b[0] - a[0]*b[2], a[0]*b[1] - a[1]*b[0]}
}
func vdot(a, b v3) float64 { return a[0]*b[0] + a[1]*b[1] + a[2]*b[2] }
func vnorm(a v3) float64   { return math.Sqrt(vdot(a, a)) }
func vangle(a, b v3) float64 {
	return math.Atan2(vnorm(vcross(a, b)), vdot(a, b))
}

// gcSegDist: great-circle distance from p to the segment a-b (end caps included).
func gcSegDist(p, a, b v3, r float64) float64 {
	n := vcross(a, b)
	nn := vnorm(n)
	if nn == 0 {
		return vangle(p, a) * r
	}
	for i := range n {
		n[i] /= nn
	}
	d := vdot(p, n)
	q := v3{p[0] - d*n[0], p[1] - d*n[1], p[2] - d*n[2]}
	qn := vnorm(q)
	if qn > 0 {
		for i := range q {
			q[i] /= qn
		}
		if vdot(vcross(a, q), n) >= 0 && vdot(vcross(q, b), n) >= 0 {
			return math.Abs(math.Asin(d)) * r
		}
	}
	return math.Min(vangle(p, a), vangle(p, b)) * r
}

// gnomonicAt: coordinates of (lat, lon) in the gnomonic (central) projection centred on
// (lat0, lon0), computed from the coordinate DIFFERENCES without cancellation, so that points a
// few millimetres apart keep full relative precision.  Great circles are straight lines in this
// plane and the plane distance from the origin is the tangent of the angular distance.
func gnomonicAt(lat0, lon0, lat, lon float64) (x, y float64) {
	rad := math.Pi / 180
	dlat, dlon := (lat-lat0)*rad, math.Remainder(lon-lon0, 360)*rad
	s0, c0 := math.Sincos(lat0 * rad)
	_, c1 := math.Sincos(lat * rad)
	h := math.Sin(dlon / 2)
	east := c1 * math.Sin(dlon)
	north := math.Sin(dlat) + s0*c1*2*h*h // = c0*s1 - s0*c1*cos(dlon)
	// up = s0*s1 + c0*c1*cos(dlon) = cos(dlat) - c0*c1*2h²
	up := math.Cos(dlat) - c0*c1*2*h*h
	return east / up, north / up
}

// gcDistLL: angular great-circle distance, cancellation-free for close points.
func gcDistLL(lat1, lon1, lat2, lon2 float64) float64 {
	if math.Abs(lat1-lat2) < 30 && math.Abs(math.Remainder(lon1-lon2, 360)) < 30 && math.Abs(lat1) < 89 {
		x, y := gnomonicAt(lat1, lon1, lat2, lon2)
		return math.Atan(math.Hypot(x, y))
	}
	return vangle(toVec(lat1, lon1), toVec(lat2, lon2))
}

// gcSegDistLL: great-circle distance from P to the segment A-B (end caps included), accurate to
// a relative 1e-14 also for segments of a metre and offsets of a millimetre.
func gcSegDistLL(latP, lonP, latA, lonA, latB, lonB, r float64) float64 {
	ax, ay := gnomonicAt(latP, lonP, latA, lonA)
	bx, by := gnomonicAt(latP, lonP, latB, lonB)
	dx, dy := bx-ax, by-ay
	l2 := dx*dx + dy*dy
	end := math.Min(math.Hypot(ax, ay), math.Hypot(bx, by))
	if l2 == 0 {
		return math.Atan(end) * r
	}
	// foot of the perpendicular from the origin, as a parameter along A->B
	t := -(ax*dx + ay*dy) / l2
	if t < 0 || t > 1 {
		return math.Atan(end) * r
	}
	cross := math.Abs(ax*dy-ay*dx) / math.Sqrt(l2)
	return math.Atan(cross) * r
}

// ---- implementation side ---------------------------------------------------------------

func parseFloats(toks []string) []float64 {
	out := make([]float64, len(toks))
	for i, t := range toks {
		if t == "nan" {
			out[i] = math.NaN()
			continue
		}
		b, _ := strconv.ParseUint(t, 16, 64)
		out[i] = math.Float64frombits(b)
	}
	return out
}

func hexFloats(vs ...float64) string {
	ss := make([]string, len(vs))
	for i, v := range vs {
		ss[i] = hexFloat(v)
	}
	return strings.Join(ss, " ")
}

func execGE(_ *config, op string) string {
	toks := strings.Fields(op)
	var out string
	cls, _ := classify(func() error {
		switch toks[0] {
		case "onl":
			f := parseFloats(toks[1:])
			tol, r := f[0], f[1]
			p := geo.NewProcessor(geo.Tolerance(tol), geo.Radius(r))
			p2 := geo.NewProcessor(geo.Tolerance(2*tol), geo.Radius(r))
			if math.Float64bits(f[3])&2 == 2 {
				// options in the other order: the result must not depend on it
				p = geo.NewProcessor(geo.Radius(r), geo.Tolerance(tol))
				p2 = geo.NewProcessor(geo.Radius(r), geo.Tolerance(2*tol))
			}
			if math.Float64bits(f[2])&1 == 1 {
				// a used processor: it has answered for a much longer line from the same start point
				// and for another position before; the answers below must not depend on that
				p.OnLine(f[2]+0.001, f[3], f[4], f[5], f[4]+(f[6]-f[4])*40, f[5]+(f[7]-f[5])*40)
				p.OnLine(f[2], f[3], f[4], f[5], f[4]+(f[6]-f[4])*40, f[5]+(f[7]-f[5])*40)
			}
			b := p.OnLine(f[2], f[3], f[4], f[5], f[6], f[7])
			bs := p.OnLine(f[2], f[3], f[6], f[7], f[4], f[5])
			b2 := p2.OnLine(f[2], f[3], f[4], f[5], f[6], f[7])
			rad := math.Pi / 180
			d01, d02, d12, bearing, track, _, _ := geo.VerifHelpers(f[2]*rad, f[3]*rad, f[4]*rad, f[5]*rad, f[6]*rad, f[7]*rad)
			out = fmt.Sprintf("%s %s %s %s", b01(b), b01(bs), b01(b2), hexFloats(d01, d02, d12, bearing, track))
		case "dist":
			f := parseFloats(toks[2:])
			opts := []geo.Option{geo.Radius(f[0])}
			opts2 := []geo.Option{geo.Radius(2 * f[0])}
			if toks[1] == "1" {
				opts = append(opts, geo.FastDistance())
				opts2 = append(opts2, geo.FastDistance())
				if math.Float64bits(f[2])&2 == 2 {
					// options in the other order: the result must not depend on it
					opts = []geo.Option{geo.FastDistance(), geo.Radius(f[0])}
					opts2 = []geo.Option{geo.FastDistance(), geo.Radius(2 * f[0])}
				}
			}
			p, p2 := geo.NewProcessor(opts...), geo.NewProcessor(opts2...)
			if math.Float64bits(f[1])&1 == 1 {
				p.Distance(f[1], f[2], f[1]+0.01, f[2]-0.02) // a used processor
			}
			out = hexFloats(p.Distance(f[1], f[2], f[3], f[4]), p.Distance(f[3], f[4], f[1], f[2]), p2.Distance(f[1], f[2], f[3], f[4]))
		case "dtl":
			f := parseFloats(toks[1:])
			p := geo.NewProcessor(geo.Radius(f[0]))
			if math.Float64bits(f[1])&1 == 1 {
				p.DistanceToLine(f[1]+0.001, f[2], f[3], f[4], f[3]+(f[5]-f[3])*30, f[4]+(f[6]-f[4])*30) // a used processor
			}
			out = hexFloats(p.DistanceToLine(f[1], f[2], f[3], f[4], f[5], f[6]))
		case "meet":
			f := parseFloats(toks[1:])
			x, y := geo.VerifMeet(f[0], f[1], f[2], f[3], f[4], f[5], f[6], f[7])
			out = hexFloats(x, y)
		case "sd":
			f := parseFloats(toks[1:])
			out = b01(geo.VerifSameDirection(f[0], f[1]))
		case "scd":
			f := parseFloats(toks[1:])
			sn, cs := geo.VerifSincosd(f[0])
			out = hexFloats(sn, cs)
		case "atd":
			f := parseFloats(toks[1:])
			out = hexFloats(geo.VerifAtan2d(f[0], f[1]))
		case "rt":
			f := parseFloats(toks[1:])
			g := geo.NewGnomonic(geodesic.WGS84)
			if math.Float64bits(f[1])&1 == 1 {
				g.Forward(-f[0], f[1]+170, -f[0]+1, f[1]+171) // a used object
				g.Reverse(-f[0], f[1]+170, 1000, -2000)
			}
			x, y, azi, rk := g.Forward(f[0], f[1], f[2], f[3])
			lat, lon, _, _ := g.Reverse(f[0], f[1], x, y)
			x2, y2, _, _ := g.Forward(f[0], f[1], lat, lon)
			out = hexFloats(x, y, azi, rk, lat, lon, x2, y2)
		case "tr":
			// the reverse order: plane coordinates -> position -> plane coordinates
			f := parseFloats(toks[1:])
			g := geo.NewGnomonic(geodesic.WGS84)
			lat, lon, _, _ := g.Reverse(f[0], f[1], f[2], f[3])
			x2, y2, _, _ := g.Forward(f[0], f[1], lat, lon)
			out = hexFloats(lat, lon, x2, y2)
		case "ix":
			f := parseFloats(toks[1:11])
			g := geo.NewGnomonic(geodesic.WGS84)
			if math.Float64bits(f[1])&1 == 1 {
				// a used object: it has solved a crossing on the other side of the globe, and projected
				// about a far centre, before
				g.IntersectExt(-f[0]-1, f[1]+150, -f[2]-1, f[3]+150.01, -f[4]-1.005, f[5]+150.005, -f[6]-0.995, f[7]+150.005)
				g.Forward(-f[0], f[1]+170, -f[0]+1, f[1]+171)
			}
			lat, lon, a1, a2, b1, b2 := g.IntersectExt(f[0], f[1], f[2], f[3], f[4], f[5], f[6], f[7])
			_, _, err := g.Intersect(f[0], f[1], f[2], f[3], f[4], f[5], f[6], f[7])
			res := "ok"
			if err != nil {
				res = "err"
			}
			var d float64
			geodesic.WGS84.Inverse(lat, lon, f[8], f[9], &d, nil, nil)
			_ = lat
			out = fmt.Sprintf("%s %s %s", hexFloats(a1, a2, b1, b2), res, hexFloat(d*1000))
		default:
			out = "bad"
		}
		return nil
	})
	if cls == "panic" {
		return "panic"
	}
	return out
}

// ---- generators --------------------------------------------------------------------------

// offsetPoint: the point `dist` metres from (lat, lon) at `bearing` degrees on a sphere of radius r.
// gcBearingLL: initial great-circle bearing from point 1 to point 2, degrees
func gcBearingLL(lat1, lon1, lat2, lon2 float64) float64 {
	p1, p2 := lat1*math.Pi/180, lat2*math.Pi/180
	dl := (lon2 - lon1) * math.Pi / 180
	y := math.Sin(dl) * math.Cos(p2)
	x := math.Cos(p1)*math.Sin(p2) - math.Sin(p1)*math.Cos(p2)*math.Cos(dl)
	return math.Mod(math.Atan2(y, x)*180/math.Pi+360, 360)
}

func offsetPoint(lat, lon, bearing, dist, r float64) (float64, float64) {
	la, lo, br, d := lat*math.Pi/180, lon*math.Pi/180, bearing*math.Pi/180, dist/r
	la2 := math.Asin(math.Sin(la)*math.Cos(d) + math.Cos(la)*math.Sin(d)*math.Cos(br))
	lo2 := lo + math.Atan2(math.Sin(br)*math.Sin(d)*math.Cos(la), math.Cos(d)-math.Sin(la)*math.Sin(la2))
	return la2 * 180 / math.Pi, lo2 * 180 / math.Pi
}

func genGE(cfg *config, r *rng, i int, s *sink) string {
	kinds := []string{"onl", "onl", "onl", "dist", "dist", "dtl", "dtl", "meet", "sd", "rt", "ix", "ix"}
	switch cfg.prop {
	case "C17":
		kinds = []string{"onl"}
	case "C18":
		kinds = []string{"dist", "dist", "dtl"}
	case "C19":
		kinds = []string{"meet", "sd", "rt", "rt", "ix", "ix", "scd", "atd", "tr"}
	}
	kind := kinds[i%len(kinds)]
	s.count("ge." + kind)
	radius := 6378137.0
	if r.chance(1, 5) {
		radius = pick(r, []float64{6371000, 1000, 6378137 * 2, 1737400})
	}
	switch kind {
	case "onl", "dtl":
		lat := (r.float01()*2 - 1) * 84.9
		lon := (r.float01()*2 - 1) * 170
		length := math.Pow(10, r.float01()*3) // 1 m .. 1 km
		bearing := r.float01() * 360
		scale := radius / 6378137.0
		length *= scale
		if r.chance(1, 8) {
			// around the origin of the coordinate system: the equator and the prime meridian are
			// ordinary places (coordinates change sign, or are exactly zero)
			lat = pick(r, []float64{0, 0, 1e-4, -1e-4, 2e-5})
			lon = pick(r, []float64{0, 0, 1e-4, -1e-4, -2e-5})
			s.count("ge.line.origin")
		}
		lat2, lon2 := offsetPoint(lat, lon, bearing, length, radius)
		meridian := false
		if r.chance(1, 6) {
			// exactly north-south or east-west: the two ends share a coordinate bit for bit
			deg := length / radius * 180 / math.Pi
			switch r.intn(4) {
			case 0:
				bearing, lat2, lon2 = 0, lat+deg, lon
				meridian = true
			case 1:
				bearing, lat2, lon2 = 180, lat-deg, lon
				meridian = true
			case 2:
				bearing, lat2, lon2 = 90, lat, lon+deg/math.Cos(lat*math.Pi/180)
			default:
				bearing, lat2, lon2 = 270, lat, lon-deg/math.Cos(lat*math.Pi/180)
			}
			if math.Abs(lat2) > 85 {
				lat2 = lat
				lon2 = lon + deg
				bearing = 90
				meridian = false
			}
			length = gcDistLL(lat, lon, lat2, lon2) * radius
			s.count("ge.line.cardinal")
		}
		tol := math.Pow(10, -2+r.float01()*3.5) * scale // 1 cm .. ~30 m
		if r.chance(1, 8) {
			tol = 0.1 // exactly the documented default, with whatever radius is configured
			s.count("ge.tol.default")
		}
		// position: before / beside / beyond the segment, 0..3 tolerances away
		along := (r.float01()*1.6 - 0.3) * length
		if r.chance(1, 4) {
			along = pick(r, []float64{0, length, length / 2, -tol, length + tol})
		}
		off := r.float01() * 3 * tol
		if r.chance(1, 3) {
			// near the boundary but outside the guard band
			off = tol * pick(r, []float64{0.97, 1.03, 0.5, 1.5, 0.985, 1.02})
		}
		if kind == "dtl" {
			// centimetres to a few hundred metres: the 1% bound bites for near positions too
			off = math.Pow(10, -2+r.float01()*4.5) * scale
		}
		if r.chance(1, 10) && kind == "onl" {
			// a long, nearly east-west line at high latitude with a centimetre tolerance: between its
			// ends the great circle bulges towards the pole by more than the tolerance, and a position
			// on the line is on the line
			lat = pick(r, []float64{60, 70, 80, -65, -75, 83}) + (r.float01()-0.5)*0.5
			bearing = pick(r, []float64{90, 270, 88, 93, 268}) + (r.float01()-0.5)*0.5
			length = (600 + r.float01()*400) * scale
			lat2, lon2 = offsetPoint(lat, lon, bearing, length, radius)
			if r.chance(1, 2) {
				lat2 = lat // exactly along the parallel's end points
				length = gcDistLL(lat, lon, lat2, lon2) * radius
				bearing = gcBearingLL(lat, lon, lat2, lon2)
			}
			tol = pick(r, []float64{0.01, 0.02, 0.015, 0.03}) * scale
			along = (0.3 + r.float01()*0.4) * length
			off = r.float01() * 0.4 * tol
			s.count("ge.line.bulge")
		}
		if r.chance(1, 10) && kind == "onl" {
			// a long diagonal line at high latitude with a centimetre tolerance, and a position just
			// inside or just beyond one of its ends: the three end-to-end distances must agree to
			// better than the tolerance
			lat = pick(r, []float64{60, 70, 80, -65, -75, 50}) + (r.float01()-0.5)*0.5
			bearing = pick(r, []float64{45, 135, 225, 315, 30, 60, 200}) + (r.float01()-0.5)*10
			length = (500 + r.float01()*500) * scale
			lat2, lon2 = offsetPoint(lat, lon, bearing, length, radius)
			tol = pick(r, []float64{0.01, 0.02, 0.05}) * scale
			along = pick(r, []float64{-3 * tol, 2 * tol, length + 3*tol, length - 2*tol})
			off = r.float01() * 0.3 * tol
			s.count("ge.line.long_diagonal_ends")
		}
		if r.chance(1, 10) && kind != "dist" {
			// a very short line with a centimetre tolerance and a position a centimetre or two from
			// one of its ends (the products of the distances involved are tiny, nothing is degenerate)
			length = (1 + r.float01()*2) * scale
			lat2, lon2 = offsetPoint(lat, lon, bearing, length, radius)
			tol = pick(r, []float64{0.01, 0.02}) * scale
			along = pick(r, []float64{0.015 * scale, 0.03 * scale, length - 0.015*scale, length / 2})
			off = r.float01() * 0.5 * tol
			if kind == "dtl" {
				off = pick(r, []float64{0, 0.005, 0.5}) * scale
			}
			s.count("ge.line.short_near_end")
		}
		if kind == "dtl" && r.chance(1, 25) {
			// a line that is a single point (a marker post): the distance to it is the distance to the point
			lat2, lon2 = lat, lon
			s.count("ge.line.point")
		}
		side := 90.0
		if r.bool() {
			side = -90
		}
		antimeridian := kind == "onl" && r.chance(1, 8)
		if antimeridian {
			// a start/finish line at the 180th meridian, or at 90 degrees east or west, is a line like
			// any other (longitudes are periodic in 360 degrees and in nothing shorter)
			shift := pick(r, []float64{180, -180, 179.99995, -179.9999, 90, -90, 90.00003, -89.99995, -90.0001, 89.9999}) - lon
			lon += shift
			lon2 += shift
			s.count("ge.line.antimeridian")
		}
		bl, bo := offsetPoint(lat, lon, bearing, along, radius)
		pl, po := offsetPoint(bl, bo, bearing+side, off, radius)
		if antimeridian {
			wrap := func(x float64) float64 {
				for x > 180 {
					x -= 360
				}
				for x < -180 {
					x += 360
				}
				return x
			}
			lon, lon2, po = wrap(lon), wrap(lon2), wrap(po)
		}
		if meridian && !antimeridian && lat2 != lat && r.chance(1, 3) {
			// a position exactly in line with a north-south line (the same longitude, bit for bit):
			// before it, on it or beyond it — its cross track is exactly zero
			pl, po = lat+(lat2-lat)*along/length, lon
			s.count("ge.pos.in_line")
		}
		if !antimeridian && r.chance(1, 15) {
			// a position that IS an end of the line, bit for bit (a reading taken at the marker)
			if r.bool() {
				pl, po = lat, lon
			} else {
				pl, po = lat2, lon2
			}
			s.count("ge.pos.at_end")
		}
		dist := gcSegDistLL(pl, po, lat, lon, lat2, lon2, radius)
		if kind == "dtl" {
			return "dtl " + hexFloats(radius, pl, po, lat, lon, lat2, lon2, dist)
		}
		return "onl " + hexFloats(tol, radius, pl, po, lat, lon, lat2, lon2, dist)
	case "dist":
		fast := r.chance(1, 3)
		lat := (r.float01()*2 - 1) * 89
		lon := (r.float01()*2 - 1) * 179
		d := math.Pow(10, -1+r.float01()*7) // 0.1 m .. 1000 km
		lim := 1e-9
		if fast {
			lat = (r.float01()*2 - 1) * 79
			lon = (r.float01()*2 - 1) * 170
			d = math.Pow(10, -1+r.float01()*4.9) // < 10 km
			lim = 1e-5
		}
		d *= radius / 6378137.0
		lat2, lon2 := offsetPoint(lat, lon, r.float01()*360, d, radius)
		if fast && math.Abs(lat2) >= 80 {
			lat2 = lat
		}
		if r.chance(1, 30) {
			lat2, lon2 = lat, lon
		}
		if r.chance(1, 6) {
			// special configurations: bit-identical latitudes (same parallel, where the arc of the
			// parallel is NOT the great circle), bit-identical longitudes, pairs either side of the
			// 180th meridian, near-antipodal pairs
			span := math.Pow(10, -3+r.float01()*3.9) // 0.001 .. ~8 degrees (the property covers pairs up to 1000 km apart)
			if fast {
				span = math.Pow(10, -4+r.float01()*2.9) // < ~0.08 degrees
			}
			switch r.intn(5) {
			case 0:
				lat2, lon2 = lat, lon+span
				if lon2 > 180 {
					lon2 -= 360
				}
				s.count("ge.dist.same_parallel")
			case 1:
				lon2 = lon
				lat2 = lat + span
				if lat2 > 89.5 {
					lat2 = lat - span
				}
				if lat2 < -89.5 {
					lat2 = -89.5
				}
				s.count("ge.dist.same_meridian")
			case 4:
				// the origin (0,0) and pairs either side of the prime meridian / the equator
				switch r.intn(3) {
				case 0:
					lat, lon = 0, 0
					lat2, lon2 = span*(r.float01()-0.3), span*(r.float01()-0.3)
				case 1:
					lon, lon2 = -span*r.float01(), span*r.float01()
				default:
					lat, lat2 = -span*r.float01(), span*r.float01()
					lon2 = lon + span*(r.float01()-0.5)
				}
				s.count("ge.dist.zero_crossing")
			case 2:
				// (the fast method is specified away from the 180th meridian only)
				if !fast {
					lon = 180 - span*r.float01()
					lon2 = -180 + span*r.float01()
					if r.bool() {
						lat2 = lat
					}
					s.count("ge.dist.antimeridian")
				}
			default:
				// same parallel at high latitude: a wide longitude span is still a short distance
				if !fast {
					lat = pick(r, []float64{60, 75, -80, 85, 88.5})
					lat2, lon2 = lat, lon+span*pick(r, []float64{1, 2, 5})
					if lon2 > 180 {
						lon2 -= 360
					}
					s.count("ge.dist.same_parallel_high")
				}
			}
			if gcDistLL(lat, lon, lat2, lon2)*6378137 > 1.0e6 {
				lat2, lon2 = lat, lon+0.5
				if lon2 > 180 {
					lon2 -= 360
				}
			}
			if fast && (math.Abs(lat2) >= 80 || gcDistLL(lat, lon, lat2, lon2)*6378137 > 10000) {
				lat2, lon2 = lat, lon+0.01
			}
		}
		gc := gcDistLL(lat, lon, lat2, lon2) * radius
		f := "0"
		if fast {
			f = "1"
		}
		return "dist " + f + " " + hexFloats(radius, lat, lon, lat2, lon2, gc, lim)
	case "meet":
		vs := make([]float64, 8)
		for k := range vs {
			vs[k] = (r.float01()*2 - 1) * math.Pow(10, float64(r.rangeInt(-3, 6)))
		}
		return "meet " + hexFloats(vs...)
	case "sd":
		a := (r.float01()*2 - 1) * 180
		b := a + pick(r, []float64{0, 180, -180, 1e-7, 179.9999, 90.5, 89.5, -89.5, -90.5, 360, 10, -170}) + (r.float01()-0.5)*1e-3
		if r.chance(1, 3) {
			b = (r.float01()*2 - 1) * 180
		}
		return "sd " + hexFloats(a, b)
	case "scd":
		// every multiple of 15 degrees (the octant boundaries are where the reduction can slip), near misses, random
		x := float64(r.rangeInt(-48, 48)) * 15
		switch r.intn(3) {
		case 0:
			x += (r.float01() - 0.5) * 1e-9
		case 1:
			x = (r.float01()*2 - 1) * 720
		}
		return "scd " + hexFloats(x)
	case "atd":
		y := (r.float01()*2 - 1) * math.Pow(10, float64(r.rangeInt(-3, 7)))
		x := (r.float01()*2 - 1) * math.Pow(10, float64(r.rangeInt(-3, 7)))
		if r.chance(1, 3) {
			x = pick(r, []float64{y, -y, 0, 1, -1})
		}
		return "atd " + hexFloats(y, x)
	case "rt":
		lat0 := (r.float01()*2 - 1) * 89
		lon0 := (r.float01()*2 - 1) * 180
		dist := r.float01() * 8.9e6
		if r.chance(1, 5) {
			dist = 1.02e7 + r.float01()*8e6
		}
		if r.chance(1, 6) {
			dist = math.Pow(10, r.float01()*6)
		}
		if r.chance(1, 5) {
			// the band around the horizon: on the ellipsoid it is up to ~40 km away from a quarter
			// of the meridian, depending on centre latitude and azimuth
			dist = 9.94e6 + r.float01()*1.2e5
			if r.chance(1, 3) {
				lat0 = pick(r, []float64{75, 15, -60, 0, 89, -89})
			}
			s.count("ge.rt.horizon_band")
		}
		if r.chance(1, 40) {
			dist = 0 // the centre itself: the origin of the plane
			s.count("ge.rt.centre")
		}
		var lat, lon float64
		if r.chance(1, 15) {
			// a point whose longitude differs from the centre's by exactly an eighth of a turn (or
			// three): nothing special about it (recorded finding: the geodesic library's octant slip)
			lat0 = math.Round((r.float01()*2-1)*60*8) / 8
			lon0 = float64(r.intn(120) - 60)
			lat = math.Round((lat0+(r.float01()*2-1)*25)*8) / 8
			lon = lon0 + pick(r, []float64{45, -45, 135, -135})
			if pick(r, []float64{0, 1}) == 1 && math.Abs(lon-lon0) == 135 {
				lat0, lat = 60+lat0/10, 60+lat/10 // (three eighths of a turn apart stays inside the horizon only near a pole)
			}
			d := gcDistLL(lat0, lon0, lat, lon) * 6371008.8
			if d < 8.5e6 {
				s.count("ge.rt.eighth_turn")
				return "rt " + hexFloats(lat0, lon0, lat, lon, d)
			}
		}
		az := r.float01() * 360
		if r.chance(1, 6) {
			az = pick(r, []float64{0, 180, 90, 270})
		}
		geodesic.WGS84.Direct(lat0, lon0, az, dist, &lat, &lon, nil)
		var back, m12 float64
		geodesic.WGS84.Inverse(lat0, lon0, lat, lon, &back, nil, nil)
		// the horizon itself: where the geodesic scale M12 changes sign (from the geodesic library,
		// not from the code under test)
		geodesic.WGS84.GenInverse(lat0, lon0, lat, lon, nil, nil, nil, nil, &m12, nil, nil)
		return "rt " + hexFloats(lat0, lon0, lat, lon, back, m12)
	case "tr":
		// plane coordinates about a centre: from a metre to several Earth radii from the origin (the
		// whole plane is the image of the hemisphere), in any direction
		lat0 := (r.float01()*2 - 1) * 89
		lon0 := (r.float01()*2 - 1) * 180
		if r.chance(1, 8) {
			lat0 = pick(r, []float64{0, 90, -90, 45, 60})
		}
		rho := math.Pow(10, r.float01()*7.5)
		az := r.float01() * 2 * math.Pi
		x, y := rho*math.Sin(az), rho*math.Cos(az)
		switch r.intn(10) {
		case 0:
			// on a diagonal of the plane, bit for bit (recorded finding: the geodesic library's octant slip)
			y = pick(r, []float64{1, -1}) * x
			s.count("ge.tr.diagonal")
		case 1:
			x = 0
		case 2:
			y = 0
		}
		return "tr " + hexFloats(lat0, lon0, x, y)
	default: // ix
		// two geodesic segments through a known point C at azimuths az1, az2 (crossing angle > 5 deg)
		latC := (r.float01()*2 - 1) * 75
		lonC := (r.float01()*2 - 1) * 150
		az1 := r.float01() * 360
		az2 := az1 + 5 + r.float01()*170
		la := math.Pow(10, 1+r.float01()*5) // 10 m .. 1000 km
		lb := math.Pow(10, 1+r.float01()*5)
		lopsided := r.chance(1, 6)
		if lopsided {
			// a lap-line sized segment against a very long one whose middle is far from the crossing
			la = 10 + r.float01()*15
			lb = math.Pow(10, 5+r.float01())
			if r.bool() {
				la, lb = lb, la
			}
			s.count("ge.ix.lopsided")
		}
		if r.chance(1, 8) {
			// near a pole, where segments of a few hundred kilometres span a quarter turn of longitude and more
			latC = pick(r, []float64{1, -1}) * (84 + r.float01()*5.5)
			if la < 1e5 && lb < 1e5 {
				la, lb = math.Pow(10, 5+r.float01()*0.9), math.Pow(10, 5+r.float01()*0.9)
			}
			s.count("ge.ix.polar")
		}
		// fraction of each segment at which C lies: inside (0.05..0.95) or outside (-1..-0.05, 1.05..2)
		frac := func() (float64, bool) {
			if r.chance(2, 3) {
				return 0.05 + r.float01()*0.9, true
			}
			if r.bool() {
				return -0.05 - r.float01(), false
			}
			return 1.05 + r.float01(), false
		}
		fa, insA := frac()
		fb, insB := frac()
		if lopsided && r.chance(2, 3) {
			// the crossing lies outside the long segment, up to a whole length from its nearer end
			if la > lb {
				fa, insA = pick(r, []float64{-0.95, -0.5, 1.5, 1.95}), false
			} else {
				fb, insB = pick(r, []float64{-0.95, -0.5, 1.5, 1.95}), false
			}
		}
		var a1la, a1lo, a2la, a2lo, b1la, b1lo, b2la, b2lo float64
		geodesic.WGS84.Direct(latC, lonC, az1, -fa*la, &a1la, &a1lo, nil)
		geodesic.WGS84.Direct(latC, lonC, az1, (1-fa)*la, &a2la, &a2lo, nil)
		geodesic.WGS84.Direct(latC, lonC, az2, -fb*lb, &b1la, &b1lo, nil)
		geodesic.WGS84.Direct(latC, lonC, az2, (1-fb)*lb, &b2la, &b2lo, nil)
		if math.Abs(latC) > 84 && r.chance(1, 3) {
			// segment A starts exactly at the pole (latitude ±90 is a latitude like any other) and runs
			// down the meridian of C to a point beyond it
			sgn := 1.0
			if latC < 0 {
				sgn = -1
			}
			a1la, a1lo = sgn*90, lonC
			a2la, a2lo = latC-sgn*(0.5+r.float01()*4), lonC
			insA = true
			az2 = 25 + r.float01()*130
			if r.bool() {
				az2 += 180
			}
			geodesic.WGS84.Direct(latC, lonC, az2, -fb*lb, &b1la, &b1lo, nil)
			geodesic.WGS84.Direct(latC, lonC, az2, (1-fb)*lb, &b2la, &b2lo, nil)
			s.count("ge.ix.pole_end")
		}
		if r.chance(1, 15) {
			// a figure whose four end points average to exactly (0, 0) — latitudes and longitudes that
			// are multiples of a quarter degree and cancel — without being symmetric about that point:
			// the crossing is wherever it is (not given: only the azimuth test and the decision apply)
			q := func(lim int) float64 { return float64(r.intn(2*lim*4+1)-lim*4) / 4 }
			for try := 0; try < 50; try++ {
				p1, q1, p2, q2, p3, q3 := q(3), q(3), q(3), q(3), q(3), q(3)
				p4, q4 := -((p1 + p2) + p3), -((q1 + q2) + q3)
				// plane estimate of the crossing parameters (a few degrees around the equator)
				dax, day, dbx, dby := q2-q1, p2-p1, q4-q3, p4-p3
				den := dax*dby - day*dbx
				if math.Abs(den) < 0.5 || math.Hypot(dax, day) < 1 || math.Hypot(dbx, dby) < 1 {
					continue
				}
				t := ((q3-q1)*dby - (p3-p1)*dbx) / den
				u := ((q3-q1)*day - (p3-p1)*dax) / den
				if t < 0.15 || t > 0.85 || u < 0.15 || u > 0.85 || math.Abs(p4) > 4 || math.Abs(q4) > 4 {
					continue
				}
				if math.Abs(q1+t*dax)+math.Abs(p1+t*day) < 0.1 {
					continue // the crossing itself is at (0,0): says nothing
				}
				s.count("ge.ix.mean_origin")
				return fmt.Sprintf("ix %s %s 1 1", hexFloats(p1, q1, p2, q2, p3, q3, p4, q4), hexFloats(math.NaN(), math.NaN()))
			}
		}
		if r.chance(1, 15) {
			// a short east-west segment whose ends both lie on the 45th parallel to the last bit, crossed
			// half way by a meridian segment (between its ends the geodesic leaves the parallel by
			// d^2 tan(lat) / 8R: 0.05 mm for 50 m) — recorded finding: the geodesic library at latitude 45
			latC = pick(r, []float64{45, -45})
			e := (10 + r.float01()*40) / 78850 // degrees of longitude for 10..50 m at latitude 45
			dn := (20 + r.float01()*400) / 111130
			b1la, b1lo, b2la, b2lo = latC, lonC-e, latC, lonC+e
			a1la, a1lo, a2la, a2lo = latC-dn*(0.2+r.float01()*0.6), lonC, latC+dn*(0.2+r.float01()*0.6), lonC
			insA, insB = true, true
			s.count("ge.ix.parallel45")
		}
		if math.Abs(a1lo-a2lo) > 180 || math.Abs(b1lo-b2lo) > 180 || math.Abs(a1lo-b1lo) > 180 {
			// straddles the 180th meridian: outside the property
			return "sd " + hexFloats(10, 20)
		}
		return fmt.Sprintf("ix %s %s %s %s", hexFloats(a1la, a1lo, a2la, a2lo, b1la, b1lo, b2la, b2lo), hexFloats(latC, lonC), b01(insA), b01(insB))
	}
}

func corpusGE(cfg *config) []string {
	const R = 6378137.0
	var past []string
	// positions beside the middle of a line that is no longer than the tolerance, just inside it
	// (the end caps do not cover this sliver), in several places and at several tolerances
	onl := func(tol, pl, po, la1, lo1, la2, lo2 float64) {
		past = append(past, "onl "+hexFloats(tol, R, pl, po, la1, lo1, la2, lo2, gcSegDistLL(pl, po, la1, lo1, la2, lo2, R)))
	}
	onl(10, 50.8579729, -0.7525288, 50.857928, -0.752664, 50.8580178, -0.752664)
	onl(10, 50.858018196, -0.752610082, 50.857928, -0.752664, 50.857939, -0.752523)
	for _, c := range []struct{ lat, lon, brg, length, abeam float64 }{{-33.5, 151.2, 37, 10, 9.5}, {65, 20, 110, 1.94, 1.9}, {12.25, -70.5, 300, 6, 9.5}} {
		a1, o1 := offsetPoint(c.lat, c.lon, c.brg+180, c.length/2, R)
		a2, o2 := offsetPoint(c.lat, c.lon, c.brg, c.length/2, R)
		pl, po := offsetPoint(c.lat, c.lon, c.brg+90, c.abeam, R)
		for _, f := range []float64{1.03, 1.06, 1.1, 1.2, 2} {
			onl(c.abeam*f, pl, po, a1, o1, a2, o2)
		}
	}
	// positions a sixth of a turn and more from the line, abeam of it (were reported as on the line:
	// the cross track had no haversine, and NaN passed every test)
	onl(2, -10, -0.75, 50.857928, -0.752664, 50.857939, -0.752523)
	onl(2, -23.7014, -0.7503, 50.85, -0.7503, 50.85, -0.7503)
	onl(0.5, 50.86, 179.25, 50.857928, -0.752664, 50.857828, -0.752664)
	// positions exactly in line with a meridian line, beyond its ends and on it
	past = append(past, "dtl "+hexFloats(R, 50.007, 8, 50, 8, 50.005, 8, gcSegDistLL(50.007, 8, 50, 8, 50.005, 8, R)),
		"dtl "+hexFloats(R, 49.999, 8, 50, 8, 50.005, 8, gcSegDistLL(49.999, 8, 50, 8, 50.005, 8, R)),
		"dtl "+hexFloats(R, 0, 10.001, 0, 10, 0, 10.0005, gcSegDistLL(0, 10.001, 0, 10, 0, 10.0005, R)))
	onl(1, 50.0051, 8, 50, 8, 50.005, 8)
	onl(1, 50.002, 8, 50, 8, 50.005, 8)
	// lines across the meridians 90 degrees west and east (a position on the line, one beside it
	// within the tolerance, one beyond an end)
	onl(1, 29.88, -90.000020721, 29.88, -90.000103603, 29.88, -89.999896397)
	onl(5, 29.880027, 90.0002, 29.88, 89.999, 29.88, 90.00107)
	onl(1, 29.88, 90.000124, 29.88, 89.999896397, 29.88, 90.000103603)
	// points a few kilometres inside the horizon but more than a quarter of the equator away
	for _, c := range [][4]float64{{90, 0, -0.2535333705929389, 50}, {60, 10, 29.952596644545988, -170}, {-90, 30, 0.1992712105183544, -120},
		{55, -3, 34.994389488025, 174.555019108333}, {30, 100, 60.051567190088726, -80}, {-75, 140, -14.611046147438328, -50.34911638776293},
		{80, 20, -0.21857060911032866, 109.98588384966472}} {
		var back, m12 float64
		geodesic.WGS84.Inverse(c[0], c[1], c[2], c[3], &back, nil, nil)
		geodesic.WGS84.GenInverse(c[0], c[1], c[2], c[3], nil, nil, nil, nil, &m12, nil, nil)
		past = append(past, "rt "+hexFloats(c[0], c[1], c[2], c[3], back, m12))
	}
	return append(past, []string{
		// the repository's own examples
		"onl " + hexFloats(10, 6378137, 50.858006, -0.752614, 50.857928, -0.752664, 50.857939, -0.752523,
			gcSegDistLL(50.858006, -0.752614, 50.857928, -0.752664, 50.857939, -0.752523, 6378137)),
		"onl " + hexFloats(1, 6378137, 50.858006, -0.752614, 50.857928, -0.752664, 50.857939, -0.752523,
			gcSegDistLL(50.858006, -0.752614, 50.857928, -0.752664, 50.857939, -0.752523, 6378137)),
		// 100 m east of a north-south segment at latitude 60 (was reported 200 m away)
		"dtl " + hexFloats(6378137, 60.0, 100.0/(111319.49*0.5), 59.999, 0, 60.001, 0,
			gcSegDistLL(60.0, 100.0/(111319.49*0.5), 59.999, 0, 60.001, 0, 6378137)),
		// crossing segments (was "doesn't intersect"), and a meridional one
		"ix " + hexFloats(0, -1, 0, 1, -1, 0, 1, 0) + " " + hexFloats(0, 0) + " 1 1",
		"ix " + hexFloats(0, -1, 0, -0.5, -1, 0, 1, 0) + " " + hexFloats(0, 0) + " 0 1",
		"sd " + hexFloats(0, 180),
		// recorded finding: a latitude of exactly 45 degrees (the geodesic dependency's sincosdx)
		"rt " + hexFloats(10, 20, 45, 85, 7269223.2),
		"sd " + hexFloats(-84.145064, -84.145064),
		// a point due west of the centre a few kilometres inside the horizon: y is exactly zero and x
		// five million kilometres (a past false alarm of the plane round trip's tolerance)
		"rt 4032e342e1e14117 c03d8990eae8f192 3f86c56698da8950 c05dce0aa04d25c8 41630a90405009d3 3f52d7ba81690363",
		// recorded findings: the same slip of the geodesic dependency at a longitude difference of
		// exactly 45 degrees, and at an azimuth of exactly 45 degrees (a point on the plane's diagonal)
		"rt " + hexFloats(48, 2, 50, 47, 3.3e6),
		"rt " + hexFloats(10, 20, 30, 65, 5.2e6),
		"tr " + hexFloats(48, 2, 1e6, 1e6),
		"tr " + hexFloats(10, 20, 5e5, -5e5),
		// end points that average to exactly (0, 0), crossing elsewhere
		"ix " + hexFloats(-2, -3, 1, 2, 2, -1, -1, 2) + " " + hexFloats(0.249963814, 0.750454632) + " 1 1",
		// … and for a segment whose ends both lie on the 45th parallel
		"ix " + hexFloats(44.9995, 7, 45.0005, 7, 45, 6.9995, 45, 7.0005) + " " + hexFloats(45, 7) + " 1 1",
	}...)
}
