// Command harness runs the real tracktools code in-process on generated cases and
// writes one protocol line per case ("AREA op args… => impl-output…") for the Lean
// driver to judge.
package main

import (
	"bufio"
	"bytes"
	"flag"
	"fmt"
	"hash/fnv"
	"io"
	"os"
	"runtime"
	"strings"
	"testing/iotest"
	"time"
)

type config struct {
	area   string
	seed   uint64
	n      int
	tier   string
	out    string
	replay string
	repo   string
	prop   string
}

// area is one protocol area: gen produces the complete text of an operation (all random
// choices come from r), exec runs the real implementation on exactly that text.
type area struct {
	gen  func(cfg *config, r *rng, i int, s *sink) string
	exec func(cfg *config, op string) string
	// corpus returns fixed operations that always run first (past failures, real files).
	corpus func(cfg *config) []string
}

var areas = map[string]*area{}

// safeExec runs exec and turns a crash of the harness-side glue itself into a visible token.
func safeExec(a *area, cfg *config, op string) (out string) {
	defer func() {
		if r := recover(); r != nil {
			out = "panic harness:" + strings.ReplaceAll(fmt.Sprint(r), " ", "_")
		}
	}()
	defer ambient(cfg.area, op)()
	return a.exec(cfg, op)
}

// chunkReader hands out at most n bytes per Read (short reads are legal for any io.Reader).
type chunkReader struct {
	r io.Reader
	n int
}

func (c *chunkReader) Read(p []byte) (int, error) {
	if len(p) > c.n {
		p = p[:c.n]
	}
	return c.r.Read(p)
}

// shortSeeker: an io.ReadSeeker with short reads
type shortSeeker struct {
	io.ReadSeeker
	n int
}

func (c *shortSeeker) Read(p []byte) (int, error) {
	if len(p) > c.n {
		p = p[:c.n]
	}
	return c.ReadSeeker.Read(p)
}

func caseHash(op string) uint64 {
	h := fnv.New64a()
	h.Write([]byte(op))
	return h.Sum64()
}

// readerFor: the bytes of a case behind one of several legal kinds of reader, chosen by a hash of
// the bytes (a result may not depend on how the reader hands its bytes out): a memory reader, one
// byte at a time, half of what is asked for, five bytes at a time, data returned together with
// EOF, a small buffered reader, or the read end of an operating-system pipe.
func readerFor(data []byte, pipeOK bool) (io.Reader, func()) {
	v := caseHash(string(data)) >> 16
	switch v % 8 {
	case 1:
		return iotest.OneByteReader(bytes.NewReader(data)), func() {}
	case 2:
		return iotest.HalfReader(bytes.NewReader(data)), func() {}
	case 3:
		return &chunkReader{bytes.NewReader(data), 5}, func() {}
	case 4:
		return iotest.DataErrReader(bytes.NewReader(data)), func() {}
	case 5:
		return bufio.NewReaderSize(bytes.NewReader(data), 16), func() {}
	case 6:
		if pipeOK && len(data) < 1<<20 {
			if r, w, err := os.Pipe(); err == nil {
				go func() { w.Write(data); w.Close() }()
				return r, func() { r.Close() }
			}
		}
	}
	return bytes.NewReader(data), func() {}
}

// ambient gives every case an environment of its own, chosen by a hash of the case (so that a
// replay meets the same one): the process's time zone and the user's locale are not inputs of any
// property, and no result may depend on them.
func ambient(area, op string) (restore func()) {
	if area == "CL" || area == "CV" {
		return func() {} // these carry their zone in the case itself (tz=, Z=)
	}
	h := fnv.New64a()
	h.Write([]byte(op))
	v := h.Sum64()
	zones := []*time.Location{time.UTC, time.UTC, time.FixedZone("east", 2*3600), time.FixedZone("west", -7*3600),
		time.FixedZone("half", 5*3600+1800), time.FixedZone("far", 13*3600)}
	if l, err := time.LoadLocation("Europe/London"); err == nil {
		zones = append(zones, l) // a zone with daylight saving changes
	}
	locales := []string{"", "", "C", "en_US.UTF-8", "en_GB.UTF-8", "de_DE.UTF-8"}
	oldLocal := time.Local
	oldLang, hadLang := os.LookupEnv("LANG")
	oldMeas, hadMeas := os.LookupEnv("LC_MEASUREMENT")
	time.Local = zones[v%uint64(len(zones))]
	loc := locales[(v>>8)%uint64(len(locales))]
	if loc == "" {
		os.Unsetenv("LANG")
		os.Unsetenv("LC_MEASUREMENT")
	} else {
		os.Setenv("LANG", loc)
		os.Setenv("LC_MEASUREMENT", loc)
	}
	return func() {
		time.Local = oldLocal
		if hadLang {
			os.Setenv("LANG", oldLang)
		} else {
			os.Unsetenv("LANG")
		}
		if hadMeas {
			os.Setenv("LC_MEASUREMENT", oldMeas)
		} else {
			os.Unsetenv("LC_MEASUREMENT")
		}
	}
}

func runArea(cfg *config, a *area, s *sink) error {
	if cfg.replay != "" {
		data, err := os.ReadFile(cfg.replay)
		if err != nil {
			return err
		}
		for _, line := range strings.Split(string(data), "\n") {
			line = strings.TrimSpace(line)
			if line == "" || strings.HasPrefix(line, "#") {
				continue
			}
			if i := strings.Index(line, " => "); i >= 0 {
				line = line[:i]
			}
			line = strings.TrimPrefix(line, cfg.area+" ")
			s.emit(cfg.area, line, safeExec(a, cfg, line))
		}
		return nil
	}
	if a.corpus != nil {
		for _, op := range a.corpus(cfg) {
			s.emit(cfg.area, op, guardedExec(a, cfg, op))
			s.count("corpus")
		}
	}
	r := newRng(cfg.seed)
	for i := 0; i < cfg.n; i++ {
		op := a.gen(cfg, r, i, s)
		s.emit(cfg.area, op, guardedExec(a, cfg, op))
	}
	return nil
}

// runaway: a call that never returned is still running in its goroutine and may be allocating
// without bound; once that has happened in an area where it can, nothing more is executed (the
// remaining cases are answered "hang-skipped") so that the run ends before the memory does.
var runaway bool

func guardedExec(a *area, cfg *config, op string) string {
	if runaway {
		return "hang-skipped"
	}
	out := safeExec(a, cfg, op)
	if out == "hang" && (cfg.area == "GM" || cfg.area == "M4") {
		runaway = true
	}
	return out
}

// waitOrRunaway waits for a result with a deadline, and gives up early when the heap has grown by
// more than 3 GiB since the call began (a loop that appends for ever fills the memory long before
// any deadline).
func waitOrRunaway(ch <-chan string, limit time.Duration) string {
	var ms runtime.MemStats
	runtime.ReadMemStats(&ms)
	base := ms.HeapAlloc
	deadline := time.After(limit)
	tick := time.NewTicker(100 * time.Millisecond)
	defer tick.Stop()
	for {
		select {
		case r := <-ch:
			return r
		case <-deadline:
			return "hang"
		case <-tick.C:
			runtime.ReadMemStats(&ms)
			if ms.HeapAlloc > base+3<<30 {
				return "hang"
			}
		}
	}
}

func main() {
	cfg := &config{}
	flag.StringVar(&cfg.area, "area", "", "area / property id")
	flag.Uint64Var(&cfg.seed, "seed", 1, "PRNG seed")
	flag.IntVar(&cfg.n, "n", 1000, "number of cases")
	flag.StringVar(&cfg.tier, "tier", "quick", "quick|thorough")
	flag.StringVar(&cfg.out, "out", "", "output cases file")
	flag.StringVar(&cfg.replay, "replay", "", "replay file: re-run exactly the ops listed there")
	flag.StringVar(&cfg.repo, "repo", "/repo", "repository root (test data)")
	flag.StringVar(&cfg.prop, "prop", os.Getenv("VERIF_PROP"), "property id the run serves (selects streams)")
	flag.Parse()

	f, ok := areas[cfg.area]
	if !ok {
		fmt.Fprintf(os.Stderr, "unknown area %q\n", cfg.area)
		os.Exit(2)
	}
	s, err := newSink(cfg.out)
	if err != nil {
		fmt.Fprintln(os.Stderr, err)
		os.Exit(2)
	}
	if err := runArea(cfg, f, s); err != nil {
		fmt.Fprintln(os.Stderr, "harness:", err)
		s.close()
		os.Exit(2)
	}
	if err := s.close(); err != nil {
		fmt.Fprintln(os.Stderr, err)
		os.Exit(2)
	}
	fmt.Printf("cases=%d\n", s.n)
	fmt.Printf("dist %s\n", strings.Join(s.distLines(), " "))
}
