package main

import (
	"bytes"
	"encoding/binary"
	"encoding/hex"
	"errors"
	"fmt"
	"math"
	"os"
	"path/filepath"
	"sort"
	"strconv"
	"strings"
	"time"

	"github.com/stevenh/tracktools/pkg/gopro/gpmf"
)

func init() {
	areas["GM"] = &area{gen: genGM, exec: execGM, corpus: corpusGM}
}

// ---- implementation side ---------------------------------------------------------------

func sv(scalar bool) string {
	if scalar {
		return "s"
	}
	return "v"
}

func joinOr(sep string, xs []string) string {
	if len(xs) == 0 {
		return "~"
	}
	return strings.Join(xs, sep)
}

func ints[T int8 | uint8 | int16 | uint16 | int32 | uint32 | int64 | uint64 | gpmf.Int16_16 | gpmf.Int32_32](tag string, scalar bool, vs []T) string {
	ss := make([]string, len(vs))
	for i, v := range vs {
		ss[i] = fmt.Sprint(int64(v))
		if u, ok := any(v).(uint64); ok {
			ss[i] = fmt.Sprint(u)
		}
	}
	return "i" + tag + sv(scalar) + ":" + joinOr(",", ss)
}

func samples3(k string, n int, get func(i int) (x, y, z float64)) string {
	ss := make([]string, n)
	for i := range ss {
		x, y, z := get(i)
		ss[i] = hexFloat(x) + "." + hexFloat(y) + "." + hexFloat(z)
	}
	return k + ":" + joinOr(",", ss)
}

const gmDateFormat = "20060102150405.000" // four-digit year: the century must be right too

func dumpData(d any) string {
	switch v := d.(type) {
	case nil:
		return "n"
	case int8:
		return ints("b", true, []int8{v})
	case []int8:
		return ints("b", false, v)
	case uint8:
		return ints("B", true, []uint8{v})
	case []uint8:
		return ints("B", false, v)
	case int16:
		return ints("s", true, []int16{v})
	case []int16:
		return ints("s", false, v)
	case uint16:
		return ints("S", true, []uint16{v})
	case []uint16:
		return ints("S", false, v)
	case int32:
		return ints("l", true, []int32{v})
	case []int32:
		return ints("l", false, v)
	case uint32:
		return ints("L", true, []uint32{v})
	case []uint32:
		return ints("L", false, v)
	case int64:
		return ints("j", true, []int64{v})
	case []int64:
		return ints("j", false, v)
	case uint64:
		return ints("J", true, []uint64{v})
	case []uint64:
		return ints("J", false, v)
	case gpmf.Int16_16:
		return ints("q", true, []gpmf.Int16_16{v})
	case []gpmf.Int16_16:
		return ints("q", false, v)
	case gpmf.Int32_32:
		return ints("Q", true, []gpmf.Int32_32{v})
	case []gpmf.Int32_32:
		return ints("Q", false, v)
	case float32:
		return "f4s:" + fmt.Sprintf("%08x", math.Float32bits(v))
	case []float32:
		ss := make([]string, len(v))
		for i, f := range v {
			ss[i] = fmt.Sprintf("%08x", math.Float32bits(f))
		}
		return "f4v:" + joinOr(",", ss)
	case float64:
		return "f8s:" + rawBits64(v)
	case []float64:
		// raw type 'd' data and scaled data share this Go type; NaN payloads differ only there
		ss := make([]string, len(v))
		for i, f := range v {
			ss[i] = hexFloat(f)
		}
		return "f8v:" + joinOr(",", ss)
	case string:
		return "s:" + hexStr(v)
	case []string:
		ss := make([]string, len(v))
		for i, s := range v {
			ss[i] = hexStr(s)
		}
		return "S:" + joinOr(",", ss)
	case time.Time:
		return "ds:" + hexStr(v.UTC().Format(gmDateFormat)) // (GPMF dates are UTC: shown as the instant they are)
	case []time.Time:
		ss := make([]string, len(v))
		for i, t := range v {
			ss[i] = hexStr(t.UTC().Format(gmDateFormat))
		}
		return "dv:" + joinOr(",", ss)
	case gpmf.Scale:
		ss := make([]string, len(v))
		for i, f := range v {
			ss[i] = hexFloat(f)
		}
		return "F:" + joinOr(",", ss)
	case gpmf.GPSData:
		ss := make([]string, len(v))
		for i, g := range v {
			ss[i] = strings.Join([]string{hexFloat(g.Latitude), hexFloat(g.Longitude), hexFloat(g.Altitude), hexFloat(g.Speed), hexFloat(g.Speed3D)}, ".")
		}
		return "G:" + joinOr(",", ss)
	case gpmf.AccelData:
		return samples3("XA", len(v), func(i int) (float64, float64, float64) { return v[i].X, v[i].Y, v[i].Z })
	case gpmf.GyroData:
		return samples3("XY", len(v), func(i int) (float64, float64, float64) { return v[i].X, v[i].Y, v[i].Z })
	case gpmf.MagnetometerData:
		return samples3("XM", len(v), func(i int) (float64, float64, float64) { return v[i].X, v[i].Y, v[i].Z })
	case gpmf.WhiteBalanceRGBData:
		return samples3("W", len(v), func(i int) (float64, float64, float64) { return v[i].Red, v[i].Green, v[i].Blue })
	case []gpmf.Face6:
		ss := make([]string, len(v))
		for i, f := range v {
			ss[i] = fmt.Sprintf("6/%d.%d.%d.%d.%d", f.ID, math.Float32bits(f.X), math.Float32bits(f.Y), math.Float32bits(f.Width), math.Float32bits(f.Height))
		}
		return "C:" + joinOr(",", ss)
	case []gpmf.Face7:
		ss := make([]string, len(v))
		for i, f := range v {
			ss[i] = fmt.Sprintf("7/%d.%d.%d.%d.%d.%d", f.ID, math.Float32bits(f.X), math.Float32bits(f.Y), math.Float32bits(f.Width), math.Float32bits(f.Height), math.Float32bits(f.Smile))
		}
		return "C:" + joinOr(",", ss)
	case []gpmf.Face8:
		ss := make([]string, len(v))
		for i, f := range v {
			ss[i] = fmt.Sprintf("8/%d.%d.%d.%d.%d.%d.%d", f.ID, math.Float32bits(f.X), math.Float32bits(f.Y), math.Float32bits(f.Width), math.Float32bits(f.Height), math.Float32bits(f.Smile), math.Float32bits(f.Confidence))
		}
		return "C:" + joinOr(",", ss)
	case []gpmf.Face10:
		ss := make([]string, len(v))
		for i, f := range v {
			ss[i] = fmt.Sprintf("10/%d.%d.%d.%d.%d.%d.%d.%d.%d", f.Version, f.Confidence, f.ID, f.X, f.Y, f.Width, f.Height, f.Smile, f.Blink)
		}
		return "C:" + joinOr(",", ss)
	case gpmf.GPSDoP:
		return "D:" + hexFloat(float64(v))
	case gpmf.GPSFix:
		return fmt.Sprintf("P:%d", uint32(v))
	}
	return fmt.Sprintf("?%T", d)
}

func dumpMeta(m map[string]interface{}) string {
	keys := make([]string, 0, len(m))
	for k := range m {
		keys = append(keys, k)
	}
	sort.Strings(keys) // Go map: key-sorted
	parts := make([]string, len(keys))
	for i, k := range keys {
		v := m[k]
		var s string
		if str, ok := v.(string); ok && k == "gps_fix_description" {
			s = "t:" + hexStr(str)
		} else {
			s = dumpData(v)
		}
		parts[i] = hexStr(k) + "=" + s
	}
	return "{" + strings.Join(parts, ";") + "}"
}

func dumpElem(b *strings.Builder, e *gpmf.Element) {
	fmt.Fprintf(b, "(%s %d %d %d %s %s", hexBytes(e.Header.Key[:]), byte(e.Header.Type), e.Header.Size, e.Header.Count, dumpData(e.Data), dumpMeta(e.Metadata))
	for _, c := range e.Nested {
		b.WriteString(" ")
		dumpElem(b, c)
	}
	b.WriteString(")")
}

func dumpElems(es []*gpmf.Element) string {
	var b strings.Builder
	b.WriteString("ok")
	for _, e := range es {
		b.WriteString(" ")
		dumpElem(&b, e)
	}
	return b.String()
}

var gmSharedReader = gpmf.NewReader()

func gmRead(data []byte) string {
	ch := make(chan string, 1)
	go func() {
		var es []*gpmf.Element
		cls, _ := classify(func() error {
			var err error
			rd, done := readerFor(data, true)
			defer done()
			re := gpmf.NewReader()
			if caseHash(string(data))&4 == 0 {
				re = gmSharedReader // (a reader carries nothing from one payload to the next)
			}
			es, err = re.Read(rd)
			return err
		})
		if cls == "ok" {
			var out string
			c2, _ := classify(func() error { out = dumpElems(es); return nil })
			if c2 != "ok" {
				ch <- "panic"
				return
			}
			ch <- out
			return
		}
		ch <- cls
	}()
	return waitOrRunaway(ch, 30*time.Second)
}

// gmWalk reads data, numbers the elements in document order with the harness's own recursion,
// then runs the real gpmf.Walk with a visiting function that answers ErrSkip for the numbers in
// skip and a plain error for stop, and reports the numbers visited.
func gmWalk(data []byte, skip, stop string) string {
	es, err := gpmf.NewReader().Read(bytes.NewReader(data))
	if err != nil {
		return "readerr"
	}
	index := map[*gpmf.Element]int{}
	var number func(es []*gpmf.Element)
	number = func(es []*gpmf.Element) {
		for _, e := range es {
			index[e] = len(index)
			number(e.Nested)
		}
	}
	number(es)
	skips := map[int]bool{}
	if skip != "~" {
		for _, t := range strings.Split(skip, ",") {
			n, _ := strconv.Atoi(t)
			skips[n] = true
		}
	}
	stopAt := -1
	if stop != "-" {
		stopAt, _ = strconv.Atoi(stop)
	}
	var visited []string
	errStop := errors.New("stop")
	var werr error
	cls, _ := classify(func() error {
		werr = gpmf.Walk(es, func(e *gpmf.Element) error {
			i, ok := index[e]
			if !ok {
				i = -1
			}
			visited = append(visited, strconv.Itoa(i))
			switch {
			case i == stopAt:
				return fmt.Errorf("wrapped: %w", errStop)
			case skips[i]:
				return gpmf.ErrSkip
			}
			return nil
		})
		return nil
	})
	if cls == "panic" {
		return "panic"
	}
	res := "ok"
	switch {
	case werr == nil:
	case errors.Is(werr, errStop):
		res = "stopped"
	default:
		res = "othererr"
	}
	v := "~"
	if len(visited) > 0 {
		v = strings.Join(visited, ",")
	}
	return fmt.Sprintf("%s n=%d v=%s", res, len(index), v)
}

func execGM(_ *config, op string) string {
	f := strings.Fields(op)
	switch f[0] {
	case "read":
		var data []byte
		if f[2] != "-" {
			data, _ = hex.DecodeString(f[2])
		}
		return gmRead(data)
	case "walk":
		data, _ := hex.DecodeString(f[1])
		return gmWalk(data, f[2], f[3])
	}
	return "bad"
}

// ---- encoders (the harness-side writer of well-formed streams) ----------------------------

func klv(key string, typ byte, size int, count int, payload []byte) []byte {
	if count > 65535 || size > 255 {
		// a generator slip must not turn into a header that silently describes something else
		panic(fmt.Sprintf("klv %s: size %d x repeat %d does not fit the header", key, size, count))
	}
	b := []byte(key)
	b = append(b, typ, byte(size), byte(count>>8), byte(count))
	b = append(b, payload...)
	for len(b)%4 != 0 {
		b = append(b, 0)
	}
	return b
}

func nest(key string, children ...[]byte) []byte {
	var body []byte
	for _, c := range children {
		body = append(body, c...)
	}
	// size 4, repeat = length/4 (up to 256 KiB) when the length allows, else size 1, repeat = length
	if len(body)/4 <= 65535 && len(body)%4 == 0 && len(body) > 0 {
		return append(append([]byte(key), 0, 4, byte(len(body)/4>>8), byte(len(body)/4)), body...)
	}
	if len(body) > 65535 {
		panic(fmt.Sprintf("nest %s: %d bytes have no header (structure size 4 x repeat)", key, len(body)))
	}
	return append(append([]byte(key), 0, 1, byte(len(body)>>8), byte(len(body))), body...)
}

var gmTypes = []struct {
	ch byte
	w  int
}{{'b', 1}, {'B', 1}, {'s', 2}, {'S', 2}, {'l', 4}, {'L', 4}, {'f', 4}, {'d', 8}, {'j', 8}, {'J', 8}, {'q', 4}, {'Q', 8}, {'c', 1}, {'F', 4}, {'G', 16}, {'U', 16}}

func gmValueBytes(r *rng, n int) []byte {
	b := make([]byte, n)
	switch r.intn(5) {
	case 0: // zeros
	case 1:
		for i := range b {
			b[i] = 0xff
		}
	case 2: // extremes: sign bit only
		if n > 0 {
			b[0] = 0x80
		}
	default:
		for i := range b {
			b[i] = byte(r.intn(256))
		}
	}
	return b
}

var gmOtherKeys = []string{"ABCD", "SHUT", "WBAL", "ISOG", "STMP", "TICK", "VERS", "MTRX", "ORIN", "YAVG", "UNIF", "HUES", "SCEN", "MWET", "EMPT", "RMRK"}

// gmLeaf builds one arbitrary-typed element under an unparsed key.
// gmBig: also generate payloads beyond 64 KiB (the C06 stream; they make the other streams slow)
var gmBig bool

// gmBigOneIn: how rare they are (the C09 stream is long and mostly damaged input: rarer there)
var gmBigOneIn = 250

// gmBigSensors: sensor payloads beyond 64 KiB (the C07 and C09 streams)
var gmBigSensors bool

func gmLeaf(r *rng, s *sink) []byte {
	t := gmTypes[r.intn(len(gmTypes))]
	key := pick(r, gmOtherKeys)
	if r.chance(1, 8) {
		// any 7-bit bytes are a key, the boundaries included; a byte beyond is an error
		kb := make([]byte, 4)
		for i := range kb {
			kb[i] = pick(r, []byte{0x00, 0x01, 0x20, '0', '9', 'A', 'Z', 'a', 'z', '_', 0x7e, 0x7f, 0x7f})
		}
		if r.chance(1, 6) {
			kb[r.intn(4)] = pick(r, []byte{0x80, 0x81, 0xc3, 0xff})
			s.count("gm.key.8bit")
		} else {
			s.count("gm.key.7bit_random")
		}
		key = string(kb)
	}
	size := t.w * (1 + r.intn(3))
	if t.ch == 'c' {
		size = 1 + r.intn(12)
	}
	if t.ch == 'U' || t.ch == 'G' {
		size = 16
	}
	if r.chance(1, 12) {
		size = 1 + r.intn(255)
	}
	if (t.ch == 'U' || t.ch == 'G') && r.chance(1, 5) {
		// a structure size other than the type's own 16 bytes, with any repeat (the number of values
		// follows from the payload's length, not from the repeat)
		size = pick(r, []int{1, 4, 8, 12, 15, 17, 32, 0})
		s.count("gm.fixed16.odd_size")
	}
	count := r.intn(5)
	if r.chance(1, 10) {
		count = r.intn(40)
	}
	if size > 0 && size*count > 2000 {
		count = 2000 / size
	}
	if gmBig && r.chance(1, gmBigOneIn) {
		// a payload around and beyond 64 KiB (size x repeat no longer fits 16 bits); half of them
		// string-typed (their values are cut out of the payload by offset)
		if r.chance(1, 2) {
			t = pick(r, []struct {
				ch byte
				w  int
			}{{'c', 1}, {'F', 4}, {'G', 16}, {'U', 16}})
			size = t.w
			if t.ch == 'c' {
				size = pick(r, []int{1, 2, 7, 200, 255})
			}
			s.count("gm.big_strings")
		}
		if size == 0 {
			size = t.w
		}
		count = (65536+r.intn(9000)-3000)/size + 1
		if count > 65535 {
			count = 65535
		}
		s.count("gm.big_payload")
	}
	payload := gmValueBytes(r, size*count)
	if t.ch == 'U' && size == 16 {
		for i := 0; i < count; i++ {
			copy(payload[i*16:], []byte(fmt.Sprintf("%02d%02d%02d%02d%02d%02d.%03d", r.intn(100), 1+r.intn(12), 1+r.intn(28), r.intn(24), r.intn(60), r.intn(60), r.intn(1000))))
		}
		if r.chance(1, 40) && count > 0 {
			payload[r.intn(len(payload))] = byte(r.intn(256))
		}
	}
	if t.ch == 'c' {
		for i := range payload {
			const alphabet = "abcXYZ 09\x00\xb0\xb2\xb5m/s"
			payload[i] = alphabet[r.intn(len(alphabet))]
		}
	}
	s.count(fmt.Sprintf("gm.type.%c", t.ch))
	s.count("gm.pad." + fmt.Sprint((size*count)%4))
	return klv(key, t.ch, size, count, payload)
}

func beInts(w int, vs ...int64) []byte {
	var b []byte
	for _, v := range vs {
		switch w {
		case 1:
			b = append(b, byte(v))
		case 2:
			b = binary.BigEndian.AppendUint16(b, uint16(v))
		case 4:
			b = binary.BigEndian.AppendUint32(b, uint32(v))
		default:
			b = binary.BigEndian.AppendUint64(b, uint64(v))
		}
	}
	return b
}

// gmScaled builds SCAL + sensor element pairs (C07) and metadata (C16).
func gmSensor(r *rng, s *sink) [][]byte {
	var out [][]byte
	sens := pick(r, []struct {
		key string
		w   int
	}{{"GPS5", 5}, {"ACCL", 3}, {"GYRO", 3}, {"MAGN", 3}, {"WRGB", 3}, {"SHUT", 1}, {"ISOG", 2}})
	raw := pick(r, []struct {
		ch byte
		w  int
	}{{'s', 2}, {'S', 2}, {'l', 4}, {'L', 4}, {'b', 1}, {'B', 1}, {'f', 4}, {'d', 8}, {'j', 8}, {'J', 8}, {'q', 4}, {'Q', 8}})
	if r.chance(4, 5) {
		// scale vector of length 1, w or something else
		n := pick(r, []int{1, 1, sens.w, 2, 0})
		if r.chance(9, 10) && n == 0 {
			n = 1
		}
		st := pick(r, []struct {
			ch byte
			w  int
		}{{'s', 2}, {'l', 4}, {'S', 2}, {'L', 4}, {'f', 4}})
		var vals []int64
		for i := 0; i < n; i++ {
			v := int64(1 + r.intn(10000))
			if r.chance(1, 20) {
				v = 0
			}
			if r.chance(1, 5) {
				v = pick(r, []int64{1, 1, 10, 100, 1000, -1, 2}) // unit and power-of-ten entries, anywhere in the vector
			}
			if st.ch == 'f' {
				v = int64(math.Float32bits(float32(v) / 8))
			}
			vals = append(vals, v)
		}
		if r.chance(1, 25) {
			// a scale whose structure size is not its type's width: smaller (no value fits), zero, or larger
			sz := pick(r, []int{0, 1, st.w - 1, st.w + 1, 2 * st.w})
			cnt := 1 + r.intn(3)
			out = append(out, klv("SCAL", st.ch, sz, cnt, gmValueBytes(r, sz*cnt)))
			s.count("gm.scal.oddsize")
		} else {
			out = append(out, klv("SCAL", st.ch, st.w, n, beInts(st.w, vals...)))
			s.count("gm.scal." + fmt.Sprint(n))
		}
	}
	nsamp := r.intn(5)
	if gmBigSensors && r.chance(1, gmBigOneIn+50) {
		// a long recording interval: the sensor payload passes 64 KiB (size x repeat beyond 16 bits),
		// also with the largest repeat counts there are
		nsamp = pick(r, []int{65536/(raw.w*sens.w) + 1 + r.intn(50), 32768, 65535})
		if nsamp*raw.w*sens.w > 240000 {
			// (the stream and device containers around it must stay below 4 x 65535 bytes to have a header)
			nsamp = 240000 / (raw.w * sens.w)
		}
		s.count("gm.sensor.big")
	}
	nvals := nsamp * sens.w
	if r.chance(1, 40) {
		nvals += 1 + r.intn(2) // not a multiple of the sample width
	}
	flat := nvals != nsamp*sens.w || r.chance(1, 6)
	if flat && nvals > 65535 {
		// (the flat spelling — structure size = one value — cannot carry more than 65535 values: a
		// repeat count has 16 bits; the header must describe the payload that follows it)
		flat, nvals = false, nsamp*sens.w
	}
	payload := gmValueBytes(r, raw.w*nvals)
	size, count := raw.w*sens.w, nsamp
	if flat {
		size, count = raw.w, nvals
	}
	out = append(out, klv(sens.key, raw.ch, size, count, payload))
	s.count("gm.sensor." + sens.key)
	return out
}

var gmMetaKeys = []string{"STNM", "SIUN", "UNIT", "TYPE", "TSMP", "TMPC", "GPSF", "GPSP", "GPSU"}

func gmMeta(r *rng, key string) []byte {
	if r.chance(1, 30) {
		// a statement that holds no complete value (repeat 0, size 0, a structure smaller than the
		// type's width), possibly right after a scale: an error or an empty value, nothing worse
		e := pick(r, [][]byte{klv(key, 'S', 2, 0, nil), klv(key, 'S', 0, 1, nil), klv(key, 'S', 1, 1, []byte{1}), klv(key, 'L', 2, 1, []byte{0, 1}),
			klv(key, 'b', 1, 0, nil), klv(key, 'L', 4, 0, nil), klv(key, 'c', 0, 0, nil), klv(key, 'f', 4, 0, nil)})
		if r.chance(1, 2) {
			return append(klv("SCAL", 'S', 2, 1, []byte{0, 100}), e...)
		}
		return e
	}
	switch key {
	case "TSMP":
		if r.chance(1, 10) {
			return klv(key, 'L', 4, 1, beInts(4, 0)) // no samples yet: a total like any other
		}
		return klv(key, 'L', 4, 1, beInts(4, int64(r.intn(100000))))
	case "TMPC":
		if r.chance(1, 8) {
			// exactly 0.0 degrees (and -0.0): a temperature like any other
			return klv(key, 'f', 4, 1, beInts(4, int64(pick(r, []uint32{0, 0, 0x80000000}))))
		}
		return klv(key, 'f', 4, 1, beInts(4, int64(math.Float32bits(float32(r.intn(900))/10))))
	case "GPSF":
		if r.chance(1, 40) {
			return klv(key, 'S', 2, 1, beInts(2, 3))
		}
		return klv(key, 'L', 4, 1, beInts(4, int64(r.intn(5))))
	case "GPSP":
		if r.chance(1, 40) {
			return klv(key, 'L', 4, 1, beInts(4, 3))
		}
		return klv(key, 'S', 2, 1, beInts(2, int64(r.intn(3000))))
	case "GPSU":
		// two-digit years on both sides of the pivot (69..99 are 19yy, 00..68 are 20yy)
		yy := pick(r, []int{22, 22, 17, 99, 69, 68, 0, 70, 85, 38})
		return klv(key, 'U', 16, 1, []byte(fmt.Sprintf("%02d05%02d%02d%02d%02d.%03d", yy, 1+r.intn(28), r.intn(24), r.intn(60), r.intn(60), r.intn(1000))))
	case "TYPE":
		v := pick(r, []string{"Lffff", "Lffffffffffffffffffffff", "Lffffff", "BBSSSSSBB"})
		return klv(key, 'c', 1, len(v), []byte(v))
	case "DVID":
		return klv(key, 'L', 4, 1, beInts(4, int64(1+r.intn(9))))
	default:
		if r.chance(1, 3) {
			// a list of strings (one per channel): fixed-size, NUL-padded entries, Latin-1 unit bytes
			pool := []string{"m/s\xb2", "\xb0C", "\xb5T", "m\xb3/s", "rad/s", "deg", "m", "m/s", "", "\xb0", "a\x00b"}
			n := 2 + r.intn(4)
			size := 1 + r.intn(6)
			var items []string
			for k := 0; k < n; k++ {
				it := pick(r, pool)
				if len(it) > size {
					size = len(it)
				}
				items = append(items, it)
			}
			if r.chance(1, 3) {
				size++ // every entry padded
			}
			var payload []byte
			for _, it := range items {
				e := make([]byte, size)
				copy(e, it)
				payload = append(payload, e...)
			}
			return klv(key, 'c', size, n, payload)
		}
		if r.chance(1, 8) {
			// a blank value is a value: zero length, or a fixed-width field that is all padding
			// (restating a name as blank must replace the earlier one)
			n := pick(r, []int{0, 0, 1, 4, 7})
			return klv(key, 'c', 1, n, make([]byte, n))
		}
		v := pick(r, []string{"Accelerometer", "m/s\xb2", "deg", "GPS (Lat., Long., Alt., 2D speed, 3D speed)", "x", "Camera" + fmt.Sprint(r.intn(9)), "\xb0/s", "\xb5T"})
		return klv(key, 'c', 1, len(v), []byte(v))
	}
}

func gmFace(r *rng) [][]byte {
	def := pick(r, []struct {
		s    string
		size int
	}{{"Lffff", 20}, {"Lffffffffffffffffffffff", 92}, {"Lffffff", 28}, {"BBSSSSSBB", 14}})
	n := r.intn(4)
	size := def.size
	if r.chance(1, 40) {
		size = def.size - 1 - r.intn(3) // undersized record
	}
	out := [][]byte{klv("TYPE", 'c', 1, len(def.s), []byte(def.s))}
	if r.chance(1, 40) {
		out = nil // missing type definition
	}
	if r.chance(1, 25) {
		// a type definition that is a list of strings — with one, several or no entries at all
		sz := pick(r, []int{len(def.s), 5, 4, 0})
		cnt := pick(r, []int{0, 0, 1, 2})
		ch := pick(r, []byte{'c', 'c', 'F', 'G'})
		pl := make([]byte, sz*cnt)
		for i := 0; i < cnt; i++ {
			copy(pl[i*sz:], def.s)
		}
		out = [][]byte{klv("TYPE", ch, sz, cnt, pl)}
	}
	out = append(out, klv("FACE", '?', size, n, gmValueBytes(r, size*n)))
	return out
}

// gmStream builds one STRM with metadata, sensors, faces and arbitrary leaves.
func gmStream(r *rng, s *sink) []byte {
	var kids [][]byte
	n := 1 + r.intn(6)
	for i := 0; i < n; i++ {
		switch r.intn(7) {
		case 0, 1:
			key := pick(r, gmMetaKeys)
			if r.chance(1, 5) {
				key = pick(r, []string{"DVNM", "DVID"}) // a device-level key restated inside the stream
			}
			kids = append(kids, gmMeta(r, key))
		case 2, 3:
			kids = append(kids, gmSensor(r, s)...)
		case 4:
			kids = append(kids, gmFace(r)...)
		case 5:
			nv := 1 + r.intn(3)
			kids = append(kids, klv(pick(r, []string{"FCNM", "ISOE"}), 'S', 2, nv, gmValueBytes(r, 2*nv)))
		default:
			kids = append(kids, gmLeaf(r, s))
		}
	}
	return nest("STRM", kids...)
}

// gmTree builds a payload: devices holding streams, depth up to 4.
func gmTree(r *rng, s *sink) []byte {
	var out []byte
	nd := 1 + r.intn(2)
	for d := 0; d < nd; d++ {
		var kids [][]byte
		if r.chance(4, 5) {
			kids = append(kids, gmMeta(r, "DVID"))
		}
		if r.chance(4, 5) {
			kids = append(kids, gmMeta(r, "DVNM"))
		}
		// device-level descriptive values that streams may restate
		for k := r.intn(3); k > 0; k-- {
			kids = append(kids, gmMeta(r, pick(r, gmMetaKeys)))
		}
		ns := r.intn(4)
		for i := 0; i < ns; i++ {
			st := gmStream(r, s)
			if r.chance(1, 8) {
				st = nest("STRM", nest("ABCD", st)) // deeper nesting
			}
			kids = append(kids, st)
		}
		if r.chance(1, 4) {
			kids = append(kids, gmMeta(r, "DVNM")) // restated later
		}
		if r.chance(1, 5) {
			kids = append(kids, gmLeaf(r, s))
		}
		out = append(out, nest("DEVC", kids...)...)
	}
	if r.chance(1, 6) {
		out = append(out, gmLeaf(r, s)...) // top-level leaf
	}
	s.count("gm.devices." + fmt.Sprint(nd))
	return out
}

func gmMutate(r *rng, b []byte) []byte {
	b = append([]byte{}, b...)
	n := 1 + r.intn(3)
	for ; n > 0 && len(b) > 0; n-- {
		switch r.intn(6) {
		case 0: // bit flip
			i := r.intn(len(b))
			b[i] ^= 1 << uint(r.intn(8))
		case 1: // truncate
			b = b[:r.intn(len(b))]
		case 2: // overwrite a header field (type / size / repeat)
			i := (r.intn(len(b)/4+1) * 4) % len(b)
			b[i] = byte(r.intn(256))
		case 3: // zero a word
			i := (r.intn(len(b)/4+1) * 4) % len(b)
			for k := i; k < i+4 && k < len(b); k++ {
				b[k] = 0
			}
		case 4: // random tail
			for k := 0; k < 1+r.intn(9); k++ {
				b = append(b, byte(r.intn(256)))
			}
		default: // duplicate a slice
			i := r.intn(len(b))
			j := i + r.intn(len(b)-i)
			b = append(b[:j], append(append([]byte{}, b[i:j]...), b[j:]...)...)
		}
	}
	return b
}

var gmCaptures [][]byte

func gmLoadCaptures(cfg *config) {
	if gmCaptures != nil {
		return
	}
	for _, n := range []string{"hero5.raw", "fusion.raw", "hero6.raw", "hero6-multi-chunk.raw"} {
		if d, err := os.ReadFile(filepath.Join(cfg.repo, "test", n)); err == nil {
			if len(d) > 6000 {
				d = d[:6000]
			}
			gmCaptures = append(gmCaptures, d)
		}
	}
	if gmCaptures == nil {
		gmCaptures = [][]byte{{}}
	}
}

// gmTopBoundaries marks the offsets at which a top-level element of a well-formed stream ends
// (a cut there leaves a shorter well-formed stream).
func gmTopBoundaries(data []byte) map[int]bool {
	b := map[int]bool{0: true}
	for off := 0; off+8 <= len(data); {
		size := int(data[off+5])
		count := int(binary.BigEndian.Uint16(data[off+6:]))
		n := size * count
		n += (4 - n%4) % 4
		off += 8 + n
		b[off] = true
	}
	return b
}

func genGM(cfg *config, r *rng, i int, s *sink) string {
	gmLoadCaptures(cfg)
	gmBig = cfg.prop == "C06" || cfg.prop == "C09"
	gmBigSensors = cfg.prop == "C07" || cfg.prop == "C09"
	if cfg.prop == "C09" {
		gmBigOneIn = 900
	}
	stream := []string{"wf", "wf", "wf", "wf", "wf", "mut", "mut", "mutcap", "rand", "wf"}[i%10]
	switch cfg.prop {
	case "C09":
		stream = []string{"mut", "mut", "mutcap", "rand", "mut", "mutcap", "wf", "mut", "rand", "mutcap"}[i%10]
	}
	if cfg.prop == "C06" && i%8 == 5 {
		s.count("gm.stream.walk")
		tree := gmTree(r, s)
		var skip []string
		for k := 0; k < 40; k++ {
			if r.chance(1, 5) {
				skip = append(skip, strconv.Itoa(k))
			}
		}
		sk := "~"
		if len(skip) > 0 {
			sk = strings.Join(skip, ",")
		}
		stop := "-"
		if r.chance(1, 3) {
			stop = strconv.Itoa(r.intn(30))
		}
		return fmt.Sprintf("walk %s %s %s", hexBytes(tree), sk, stop)
	}
	if stream == "wf" && i%3 == 1 && cfg.prop != "C16" && cfg.prop != "C07" {
		stream = "trunc"
	}
	s.count("gm.stream." + stream)
	switch stream {
	case "trunc":
		// a well-formed stream cut short anywhere but between two top-level elements: an error
		tree := gmTree(r, s)
		bounds := gmTopBoundaries(tree)
		if len(tree) > 0 {
			// prefer the interesting cuts: right after a header, inside the padding, mid-payload
			k := 1 + r.intn(len(tree)-0)
			if k >= len(tree) {
				k = len(tree) - 1
			}
			if k > 0 && !bounds[k] {
				return "read trunc " + hexBytes(tree[:k])
			}
		}
		return "read wf " + hexBytes(tree)
	case "wf":
		return "read wf " + hexBytes(gmTree(r, s))
	case "mut":
		return "read mut " + hexBytes(gmMutate(r, gmTree(r, s)))
	case "mutcap":
		c := gmCaptures[r.intn(len(gmCaptures))]
		// a window of a real capture starting at a DEVC boundary is hard to find: mutate the head
		n := 400 + r.intn(1600)
		if n > len(c) {
			n = len(c)
		}
		return "read mut " + hexBytes(gmMutate(r, c[:n]))
	default:
		b := make([]byte, r.intn(64))
		for k := range b {
			b[k] = byte(r.intn(256))
		}
		return "read mut " + hexBytes(b)
	}
}

func corpusGM(cfg *config) []string {
	ops := []string{
		// past crashers / wrong answers
		"read wf " + hexBytes(klv("ABCD", 'B', 0, 1, nil)),
		"read wf " + hexBytes(klv("ABCD", 'b', 3, 1, []byte{1, 2, 3})),
		"read wf " + hexBytes(klv("ABCD", 'q', 4, 2, []byte{0, 1, 0, 0, 0, 2, 0, 0})),
		"read wf " + hexBytes([]byte{'D', 'E', 'V', 'C', 0, 1, 0, 100, 'D', 'V', 'I', 'D', 'L', 4, 0, 1, 0, 0, 0, 1}),
		"read wf " + hexBytes(nest("STRM", klv("SCAL", 's', 2, 0, nil), klv("ACCL", 's', 6, 1, []byte{0, 1, 0, 2, 0, 3}))),
		"read wf " + hexBytes(nest("STRM", klv("TYPE", 'c', 1, 9, []byte("BBSSSSSBB")), klv("FACE", '?', 14, 1, []byte{1, 90, 0, 7, 0, 10, 0, 20, 0, 30, 0, 40, 55, 66}))),
		"read mut " + hexBytes(nest("STRM", klv("TYPE", 'c', 1, 5, []byte("Lffff")), append([]byte{'F', 'A', 'C', 'E', 0, 20, 0, 1}, klv("ABCD", 'B', 1, 12, make([]byte, 12))...))),
		"read wf " + hexBytes(nil),
		"read mut " + hexBytes([]byte{1, 2, 3}),
		// a date whose fraction follows a comma (time.Parse takes it for the decimal point: the model once did not)
		"read mut " + hexBytes(nest("DEVC", klv("DVID", 'L', 4, 1, beInts(4, 4)), klv("GPSU", 'U', 16, 1, []byte("680513040034,368")))),
		// a sensor payload just beyond 64 KiB (size x repeat does not fit 16 bits), and the largest repeat count
		"read wf " + hexBytes(nest("DEVC", nest("STRM", klv("SCAL", 's', 2, 1, []byte{0, 2}), klv("ACCL", 's', 6, 10923, bytes.Repeat([]byte{0, 10, 0, 20, 0, 30}, 10923))))),
		"read wf " + hexBytes(nest("DEVC", nest("STRM", klv("SHUT", 'B', 1, 65535, bytes.Repeat([]byte{7}, 65535))))),
		// sensor elements at the top level of a payload (no device, no stream around them)
		"read wf " + hexBytes(append(klv("SCAL", 's', 2, 1, []byte{0, 2}), klv("ACCL", 's', 6, 2, []byte{0, 10, 0, 20, 0, 30, 0, 40, 0, 50, 0, 60})...)),
		"read wf " + hexBytes(klv("GYRO", 's', 6, 1, []byte{0, 1, 0, 2, 0, 3})),
		"read wf " + hexBytes(klv("GPS5", 'l', 20, 1, make([]byte, 20))),
		"read wf " + hexBytes(klv("WRGB", 'f', 12, 1, make([]byte, 12))),
		"read wf " + hexBytes(append(klv("TYPE", 'c', 1, 5, []byte("Lffff")), klv("FACE", '?', 20, 1, make([]byte, 20))...)),
		"read wf " + hexBytes(klv("FACE", '?', 20, 0, nil)),
		"read wf " + hexBytes(append(klv("FCNM", 'B', 1, 1, []byte{2}), klv("ISOE", 'S', 2, 1, []byte{1, 144})...)),
	}
	for _, n := range []string{"hero5.raw", "fusion.raw", "hero6.raw", "hero6-multi-chunk.raw"} {
		if d, err := os.ReadFile(filepath.Join(cfg.repo, "test", n)); err == nil {
			if cfg.tier != "thorough" && len(d) > 20000 {
				continue
			}
			ops = append(ops, "read wf "+hexBytes(d))
		}
	}
	if cfg.prop == "C06" || cfg.prop == "C09" {
		// string arrays whose payload is beyond 64 KiB (offsets no longer fit 16 bits)
		ops = append(ops,
			"read wf "+hexBytes(nest("DEVC", nest("STRM", klv("UNIT", 'c', 255, 258, bytes.Repeat([]byte("abcdefg\x00"), 255*258/8+1)[:255*258])))),
			"read wf "+hexBytes(nest("DEVC", klv("ABCD", 'F', 4, 16400, bytes.Repeat([]byte("GPS5"), 16400)))),
			"read wf "+hexBytes(nest("DEVC", klv("ABCD", 'G', 16, 4100, bytes.Repeat([]byte("0123456789abcdef"), 4100)))))
		if cfg.prop == "C06" {
			// a payload beyond 1 MiB (the format allows 255 x 65535 bytes), followed by another element
			big := klv("BIGC", 'c', 255, 4200, make([]byte, 255*4200))
			ops = append(ops, "read wf "+hexBytes(append(big, klv("TAIL", 'S', 2, 1, []byte{0xbe, 0xef})...)))
		}
	}
	return ops
}
