package main

import (
	"fmt"
	"math"
	"strconv"
	"strings"
)

func init() {
	areas["DEC"] = &area{gen: genDEC, exec: execDEC}
}

// execDEC: the implementation side is Go's strconv / fmt.
func execDEC(_ *config, op string) string {
	f := strings.Fields(op)
	switch f[0] {
	case "parse":
		str := f[2] + "e" + f[3]
		if f[1] == "1" {
			str = "-" + str
		}
		v, _ := strconv.ParseFloat(str, 64)
		return hexFloat(v)
	case "fixed":
		b, _ := strconv.ParseUint(f[1], 16, 64)
		p, _ := strconv.Atoi(f[2])
		return hexStr(fmt.Sprintf("%.*f", p, math.Float64frombits(b)))
	case "short":
		b, _ := strconv.ParseUint(f[1], 16, 64)
		return hexStr(strconv.FormatFloat(math.Float64frombits(b), 'g', -1, 64))
	}
	return "bad"
}

// genDEC validates the Lean exact decimal<->double conversions against strconv/fmt.
func genDEC(cfg *config, r *rng, i int, s *sink) string {
	{
		switch i % 3 {
		case 0:
			neg := r.bool()
			var m uint64
			switch r.intn(4) {
			case 0:
				m = r.u64() % 1000
			case 1:
				m = r.u64() % 100000000
			case 2:
				m = r.u64() % 10000000000000000
			default:
				m = r.u64()
			}
			e := r.rangeInt(-30, 25)
			if r.chance(1, 20) {
				e = r.rangeInt(-345, 310)
			}
			n := "0"
			if neg {
				n = "1"
			}
			s.count("parse")
			return fmt.Sprintf("parse %s %d %d", n, m, e)
		case 1:
			f := randFloat(r)
			p := r.intn(9)
			s.count("fixed")
			return fmt.Sprintf("fixed %s %d", hexFloat(f), p)
		default:
			f := randFloat(r)
			s.count("short")
			return fmt.Sprintf("short %s", hexFloat(f))
		}
	}
}

func randFloat(r *rng) float64 {
	switch r.intn(8) {
	case 0:
		return math.Float64frombits(r.u64())
	case 1:
		return float64(r.rangeInt(-100000, 100000)) / 100
	case 2:
		return float64(r.rangeInt(-1000, 1000)) / 8
	case 3:
		return (r.float01() - 0.5) * 360
	case 4:
		return (r.float01() - 0.5) * 1e-3
	case 5:
		return float64(r.rangeInt(-50, 50)) + 0.5
	case 6:
		return []float64{0, math.Copysign(0, -1), math.Inf(1), math.Inf(-1), math.NaN(), 0.05, 0.15, 0.25, 0.35, 0.045, 1e21, 1e20, 1e-5, 1e-4, 123456789012345678}[r.intn(15)]
	default:
		return r.float01() * math.Pow(10, float64(r.rangeInt(-10, 22)))
	}
}
