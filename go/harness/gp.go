package main

import (
	"bytes"
	"encoding/json"
	"errors"
	"fmt"
	"io"
	"io/fs"
	"os"
	"regexp"
	"sort"
	"strconv"
	"strings"
	"syscall"
	"time"

	"github.com/stevenh/tracktools/pkg/gopro"
)

func init() {
	areas["GP"] = &area{gen: genGP, exec: execGP, corpus: corpusGP}
}

// ---- recording, fault-injecting filesystem ------------------------------------------------

type memFile struct {
	mtime int64
	dir   bool
	link  bool // listed as a symbolic link (to a regular file)
	empty bool // a file of 0 bytes (everything else has some content)
}

type recFS struct {
	files   map[string]*memFile
	nextTmp int
	count   int
	fault   int // -1 = none
	ops     []string
	root    string
	entries []fs.DirEntry
	errKind int // which error value a failing operation reports (everything but Stat)
}

var errInjected = errors.New("injected fault")

// injSentinels: the error values a failing operation may report. Whatever the value is, a failed
// operation is a failed operation (Stat is different: "does not exist" is an answer, not a failure).
var injSentinels = []error{errInjected, fs.ErrNotExist, fs.ErrPermission, io.EOF, fs.ErrClosed, fs.ErrExist, syscall.ENOENT}

func (f *recFS) inj(op, name string) error {
	e := injSentinels[f.errKind%len(injSentinels)]
	if f.errKind == 0 || f.errKind == 3 {
		return e
	}
	return &fs.PathError{Op: op, Path: name, Err: e}
}

func (f *recFS) isInjected(err error) bool {
	return errors.Is(err, injSentinels[f.errKind%len(injSentinels)])
}

func (f *recFS) tick() bool {
	fail := f.count == f.fault
	f.count++
	return fail
}

type memInfo struct {
	name string
	f    *memFile
}

func (i memInfo) Name() string { return i.name }
func (i memInfo) Size() int64 {
	if i.f.empty || i.f.dir {
		return 0
	}
	return 4096 + i.f.mtime%1000
}
func (i memInfo) Mode() fs.FileMode {
	if i.f.dir {
		return fs.ModeDir | 0o755
	}
	return 0o644
}
func (i memInfo) ModTime() time.Time { return time.Unix(i.f.mtime, 0) }
func (i memInfo) IsDir() bool        { return i.f.dir }
func (i memInfo) Sys() any           { return nil }

type memEntry struct{ memInfo }

// a symbolic link to a video is listed as a link (lstat) and opens as the video (stat)
func (e memEntry) Type() fs.FileMode {
	if e.f.link {
		return fs.ModeSymlink
	}
	return e.Mode().Type()
}
func (e memEntry) Info() (fs.FileInfo, error) { return e.memInfo, nil }

func (f *recFS) Open(name string) (fs.File, error) {
	return nil, &fs.PathError{Op: "open", Path: name, Err: fs.ErrNotExist}
}

func (f *recFS) Stat(name string) (fs.FileInfo, error) {
	if f.tick() {
		f.ops = append(f.ops, "st:"+hexStr(name)+":fail")
		return nil, &fs.PathError{Op: "stat", Path: name, Err: errInjected}
	}
	if name == f.root {
		f.ops = append(f.ops, "st:"+hexStr(name)+":ok")
		return memInfo{name, &memFile{dir: true}}, nil
	}
	mf, ok := f.files[name]
	if !ok {
		f.ops = append(f.ops, "st:"+hexStr(name)+":enoent")
		return nil, &fs.PathError{Op: "stat", Path: name, Err: fs.ErrNotExist}
	}
	f.ops = append(f.ops, "st:"+hexStr(name)+":ok")
	return memInfo{name, mf}, nil
}

func (f *recFS) ReadDir(name string) ([]fs.DirEntry, error) {
	if f.tick() {
		f.ops = append(f.ops, "rd:"+hexStr(name)+":0")
		return nil, f.inj("readdir", name)
	}
	f.ops = append(f.ops, "rd:"+hexStr(name)+":1")
	if name != f.root {
		// a sub-directory: the processor must never look inside
		f.ops = append(f.ops, "rd-subdir:"+hexStr(name))
		return []fs.DirEntry{memEntry{memInfo{"GOPR7777.mp4", &memFile{mtime: 7}}}}, nil
	}
	return f.entries, nil
}

type recTemp struct {
	fs     *recFS
	name   string
	closed bool
}

func (t *recTemp) Name() string { return t.name }

func (t *recTemp) Write(p []byte) (int, error) {
	if t.closed {
		// like a real file: nothing can be written once it is closed
		t.fs.ops = append(t.fs.ops, "wr-after-close:"+hexStr(t.name))
		return 0, fs.ErrClosed
	}
	if t.fs.tick() {
		t.fs.ops = append(t.fs.ops, "wr:"+hexStr(t.name)+":"+hexBytes(p)+":0")
		return 0, t.fs.inj("write", t.name)
	}
	t.fs.ops = append(t.fs.ops, "wr:"+hexStr(t.name)+":"+hexBytes(p)+":1")
	return len(p), nil
}

func (t *recTemp) Close() error {
	if t.fs.tick() {
		t.fs.ops = append(t.fs.ops, "cl:"+hexStr(t.name)+":0")
		return t.fs.inj("close", t.name)
	}
	t.fs.ops = append(t.fs.ops, "cl:"+hexStr(t.name)+":1")
	t.closed = true
	return nil
}

func (f *recFS) CreateTemp(dir, pattern string) (gopro.VerifTempFile, error) {
	if f.tick() {
		f.ops = append(f.ops, "ct:!")
		return nil, f.inj("open", dir)
	}
	name := fmt.Sprintf("/tmp/%s%d", pattern, f.nextTmp)
	f.nextTmp++
	f.files[name] = &memFile{}
	f.ops = append(f.ops, "ct:"+hexStr(name))
	return &recTemp{fs: f, name: name}, nil
}

func (f *recFS) Chtimes(name string, _ time.Time, mtime time.Time) error {
	if f.tick() {
		f.ops = append(f.ops, fmt.Sprintf("ch:%s:%d:0", hexStr(name), mtime.Unix()))
		return f.inj("chtimes", name)
	}
	mf, ok := f.files[name]
	if !ok {
		f.ops = append(f.ops, fmt.Sprintf("ch:%s:%d:0", hexStr(name), mtime.Unix()))
		return &fs.PathError{Op: "chtimes", Path: name, Err: fs.ErrNotExist}
	}
	mf.mtime = mtime.Unix()
	f.ops = append(f.ops, fmt.Sprintf("ch:%s:%d:1", hexStr(name), mtime.Unix()))
	return nil
}

func (f *recFS) Remove(name string) error {
	f.ops = append(f.ops, "rm:"+hexStr(name))
	if _, ok := f.files[name]; !ok {
		return &fs.PathError{Op: "remove", Path: name, Err: fs.ErrNotExist}
	}
	delete(f.files, name)
	return nil
}

// ---- implementation side ---------------------------------------------------------------

func hexList(xs []string) string {
	if len(xs) == 0 {
		return "~"
	}
	hs := make([]string, len(xs))
	for i, x := range xs {
		hs[i] = hexStr(x)
	}
	return strings.Join(hs, ",")
}

func unhexList(s string) []string {
	if s == "~" {
		return nil
	}
	var out []string
	for _, h := range strings.Split(s, ",") {
		out = append(out, unhexStr(h))
	}
	return out
}

func joinPathModel(dir, file string) string {
	if dir == "." {
		return file
	}
	return dir + "/" + file
}

var processingRe = regexp.MustCompile(`^processing:&\{([^ ]*) `)

func gpProc(toks []string) string {
	src := unhexStr(cvField(toks, "S"))
	fsys := &recFS{files: map[string]*memFile{}, fault: -1, root: src}
	if f := cvField(toks, "F"); f != "-" {
		fsys.fault, _ = strconv.Atoi(f)
	}
	if ek := cvField(toks, "EK"); ek != "" {
		fsys.errKind, _ = strconv.Atoi(ek)
	}
	if l := cvField(toks, "L"); l != "~" {
		for _, e := range strings.Split(l, ",") {
			p := strings.Split(e, ":")
			name := unhexStr(p[0])
			mt, _ := strconv.ParseInt(p[2], 10, 64)
			mf := &memFile{mtime: mt, dir: p[1] == "d", link: p[1] == "l"}
			fsys.entries = append(fsys.entries, memEntry{memInfo{name, mf}})
			if !mf.dir {
				fsys.files[joinPathModel(src, name)] = mf
			}
		}
	}
	sort.Slice(fsys.entries, func(i, j int) bool { return fsys.entries[i].Name() < fsys.entries[j].Name() })
	if x := cvField(toks, "X"); x != "~" {
		for _, e := range strings.Split(x, ",") {
			p := strings.Split(e, ":")
			mt, _ := strconv.ParseInt(p[1], 10, 64)
			// (an existing output may be an empty file — one in three, by its recorded time: it exists all the same)
			fsys.files[unhexStr(p[0])] = &memFile{mtime: mt, empty: mt%3 == 0}
		}
	}
	var tmpl strings.Builder
	if t := cvField(toks, "T"); t != "~" {
		for _, e := range strings.Split(t, ",") {
			switch {
			case e == "N":
				tmpl.WriteString("{{.Name}}")
			case e == "E":
				tmpl.WriteString("{{.Ext}}")
			default:
				tmpl.WriteString(unhexStr(e[1:]))
			}
		}
	}
	// (the capacity of the configured argument slice is not an input of any property: half of the
	// cases hand over a slice that is exactly full, like a literal; the others one with room to spare)
	args := unhexList(cvField(toks, "A"))
	if caseHash(strings.Join(toks, " "))&1 == 0 {
		args = args[:len(args):len(args)]
	} else {
		args = append(make([]string, 0, len(args)+4), args...)
	}
	cfg := gopro.Config{
		LogLevel: "debug", SourceDir: src, Binary: "ffmpeg", Args: args,
		SkipNames: unhexList(cvField(toks, "K")), OutputTemplate: tmpl.String(),
		OutputDir: unhexStr(cvField(toks, "O")), Overwrite: cvField(toks, "W") == "1",
	}
	restore := gopro.VerifSetFS(fsys)
	defer restore()

	var invs []string
	handler := func(exe string, a ...string) error {
		argv := append([]string{exe}, a...) // copy: the processor reuses the slice
		invs = append(invs, hexList(argv))
		if fsys.tick() {
			fsys.ops = append(fsys.ops, "ha:0")
			return fsys.inj("exec", exe)
		}
		fsys.ops = append(fsys.ops, "ha:1")
		out := a[len(a)-1]
		fsys.files[out] = &memFile{mtime: 999999}
		return nil
	}
	var logBuf bytes.Buffer
	p, err := gopro.NewProcessor(gopro.Cfg(cfg), gopro.Handler(handler), gopro.Output(&logBuf))
	if err != nil {
		return "cfgerr"
	}
	files, perr := p.Process()

	// the order in which Go's map iteration visited the groups, from the processor's own log
	var order []string
	for _, line := range strings.Split(logBuf.String(), "\n") {
		var rec struct {
			Message string `json:"message"`
		}
		if json.Unmarshal([]byte(line), &rec) != nil {
			continue
		}
		if m := processingRe.FindStringSubmatch(rec.Message); m != nil {
			order = append(order, m[1])
		}
	}
	cls := "none"
	switch {
	case perr == nil:
	case errors.Is(perr, gopro.ErrNoFiles):
		cls = "nofiles"
	case strings.Contains(perr.Error(), "unexpected chapter"):
		cls = "chapter"
	case strings.Contains(perr.Error(), "no chapters"):
		cls = "nochapters"
	case strings.Contains(perr.Error(), "load file sets"):
		cls = "walk"
	case fsys.isInjected(perr) && strings.HasSuffix(fsys.lastOp(), "ha:0"):
		cls = "handler"
	default:
		cls = "fs"
	}
	inv := "~"
	if len(invs) > 0 {
		inv = strings.Join(invs, ";")
	}
	ops := "~"
	if len(fsys.ops) > 0 {
		ops = strings.Join(fsys.ops, ";")
	}
	var paths []string
	for p := range fsys.files {
		paths = append(paths, p)
	}
	sort.Strings(paths) // map iteration: canonicalise by path
	var finals []string
	for _, p := range paths {
		finals = append(finals, fmt.Sprintf("%s:%d", hexStr(p), fsys.files[p].mtime))
	}
	final := "~"
	if len(finals) > 0 {
		final = strings.Join(finals, ",")
	}
	return fmt.Sprintf("order=%s inv=%s files=%s err=%s ops=%s final=%s args=%s",
		hexList(order), inv, hexList(files), cls, ops, final, hexList(args))
}

func (f *recFS) lastOp() string {
	for i := len(f.ops) - 1; i >= 0; i-- {
		if !strings.HasPrefix(f.ops[i], "rm:") {
			return f.ops[i]
		}
	}
	return ""
}

func execGP(_ *config, op string) string {
	toks := strings.Fields(op)
	switch toks[0] {
	case "match":
		var out string
		cls, _ := classify(func() error {
			m := gopro.Hero5
			if toks[1] == "Hero10" {
				m = gopro.Hero10
			}
			f, err := m.Match(unhexStr(toks[2]))
			switch {
			case errors.Is(err, gopro.ErrNoMatch):
				out = "none"
			case err != nil:
				out = "err"
			default:
				out = fmt.Sprintf("some %s %s", hexStr(f.Index), hexStr(f.Chapter))
			}
			return nil
		})
		if cls == "panic" {
			return "panic"
		}
		return out
	case "validate":
		var fsl gopro.FileSlice
		for _, c := range unhexList(toks[1]) {
			fsl = append(fsl, gopro.File{Chapter: c})
		}
		err := fsl.Validate()
		if err == nil {
			return "ok"
		}
		if strings.Contains(err.Error(), "no chapters") {
			return "nochapters"
		}
		var ch string
		var idx int
		fmt.Sscanf(err.Error(), "unexpected chapter %q at index %d", &ch, &idx)
		return fmt.Sprintf("chapter:%s:%d", hexStr(ch), idx)
	case "args":
		c := gopro.Config{SourceDir: ".", Binary: "x", Args: unhexList(toks[1]), OutputTemplate: "out.bin"}
		if err := c.Validate(); err != nil {
			return "err"
		}
		// the chosen slot is observable through the argv handed to the handler
		fsys := &recFS{files: map[string]*memFile{"GOPR0001.mp4": {mtime: 1}}, fault: -1, root: "."}
		fsys.entries = []fs.DirEntry{memEntry{memInfo{"GOPR0001.mp4", fsys.files["GOPR0001.mp4"]}}}
		restore := gopro.VerifSetFS(fsys)
		defer restore()
		slot := -1
		p, err := gopro.NewProcessor(gopro.Cfg(c), gopro.Output(&bytes.Buffer{}), gopro.Handler(func(_ string, a ...string) error {
			for i, v := range a[:len(a)-1] {
				if strings.HasPrefix(v, "/tmp/") {
					slot = i
				}
			}
			return nil
		}))
		if err != nil {
			return "err"
		}
		p.Process() //nolint: errcheck
		return fmt.Sprintf("ok:%d", slot)
	case "osfs":
		return gpOsfs(toks[1])
	case "proc":
		var out string
		cls, _ := classify(func() error { out = gpProc(toks); return nil })
		if cls == "panic" {
			return "panic"
		}
		return out
	}
	return "bad"
}

// ---- generators --------------------------------------------------------------------------

var gpNameUniverse = []string{
	"GOPR0001.mp4", "GP010001.mp4", "GP020001.mp4", "GP030001.mp4", "GOPR0002.MP4", "gp010002.mp4",
	"GH010003.mp4", "GH020003.mp4", "GX010003.mp4", "GX010004.mp4", "GX020004.mp4", "GX030004.mp4",
	"GH010005.mp4", "GH030005.mp4", "GP010006.mp4", "gopr0007.mp4", "GOPR0007.mp4",
	"GP010001xmp4", "GOPR0001.mp4.bak", "xGOPR0001.mp4", "GOPR001.mp4", "GOPR00001.mp4", "GH1003.mp4",
	"notes.txt", "GOPR0008.mov", "GX000009.mp4", "GX010009.mp4",
}

func gpRandName(r *rng) string {
	switch r.intn(6) {
	case 0:
		return fmt.Sprintf("GOPR%04d.mp4", r.intn(10000))
	case 1:
		return fmt.Sprintf("GP%02d%04d.mp4", r.intn(100), r.intn(10))
	case 2:
		return fmt.Sprintf("G%c%02d%04d.%s", "HXhxYP"[r.intn(6)], r.intn(5), r.intn(10), pick(r, []string{"mp4", "MP4", "Mp4", "mp3", "mp44"}))
	case 3:
		// near misses: one character replaced
		n := []byte(pick(r, gpNameUniverse[:17]))
		n[r.intn(len(n))] = "Gg0Oo.xX4mMpP_ k"[r.intn(16)]
		return string(n)
	case 4:
		return pick(r, []string{"ſ", "K", "GOPR٠٠٠١.mp4", "GOPR0001.mp4\n", "", ".", "GH01000１.mp4"})
	default:
		return pick(r, gpNameUniverse)
	}
}

// gpOsfs runs a sequence of filesystem operations through the processor's real (os backed)
// filesystem adapter in a scratch directory: the contract the processor model assumes of its
// filesystem (Chtimes sets the modification time it is given, Stat reports it, Remove removes,
// CreateTemp creates) is checked against the adapter the shipped binary uses.
func gpOsfs(seq string) string {
	dir, err := os.MkdirTemp("", "verif-osfs-")
	if err != nil {
		return "bad " + err.Error()
	}
	defer os.RemoveAll(dir)
	fsys := gopro.VerifBaseFS()
	var out []string
	for _, st := range strings.Split(seq, ",") {
		p := strings.Split(st, ":")
		path := func(i int) string { return dir + "/" + unhexStr(p[i]) }
		switch p[0] {
		case "w": // set-up: a plain file (not through the adapter)
			if err := os.WriteFile(path(1), []byte("x"), 0o644); err != nil {
				return "bad " + err.Error()
			}
			out = append(out, "w")
		case "l": // set-up: a symbolic link to a file kept elsewhere, whose modification time is p[2]
			store := dir + "-store"
			os.MkdirAll(store, 0o755)
			defer os.RemoveAll(store)
			target := store + "/" + unhexStr(p[1])
			mt, _ := strconv.ParseInt(p[2], 10, 64)
			os.Remove(path(1))
			if err := os.WriteFile(target, []byte("x"), 0o644); err != nil {
				return "bad " + err.Error()
			}
			os.Chtimes(target, time.Unix(mt, 0), time.Unix(mt, 0))
			if err := os.Symlink(target, path(1)); err != nil {
				return "bad " + err.Error()
			}
			out = append(out, "l")
		case "h":
			at, _ := strconv.ParseInt(p[2], 10, 64)
			mt, _ := strconv.ParseInt(p[3], 10, 64)
			if err := fsys.Chtimes(path(1), time.Unix(at, 0), time.Unix(mt, 0)); err != nil {
				out = append(out, "h:err")
			} else {
				out = append(out, "h:ok")
			}
		case "s":
			fi, err := fsys.Stat(path(1))
			switch {
			case err == nil:
				out = append(out, fmt.Sprintf("s:ok:%d", fi.ModTime().Unix()))
			case errors.Is(err, fs.ErrNotExist):
				out = append(out, "s:enoent")
			default:
				out = append(out, "s:err")
			}
		case "r":
			if err := fsys.Remove(path(1)); err != nil {
				out = append(out, "r:err")
			} else {
				out = append(out, "r:ok")
			}
		case "t":
			f, err := fsys.CreateTemp(dir, unhexStr(p[1]))
			if err != nil {
				out = append(out, "t:err")
				break
			}
			name := f.Name()
			_, werr := f.Write([]byte("file 'x'\n"))
			cerr := f.Close()
			_, serr := os.Stat(name)
			ok := werr == nil && cerr == nil && serr == nil && strings.HasPrefix(name, dir+"/"+unhexStr(p[1]))
			out = append(out, fmt.Sprintf("t:%v", ok))
			os.Remove(name)
		case "d":
			es, err := fs.ReadDir(fsys, dir)
			if err != nil {
				out = append(out, "d:err")
				break
			}
			var ns []string
			for _, e := range es {
				ns = append(ns, hexStr(e.Name()))
			}
			out = append(out, "d:"+strings.Join(ns, "+"))
		}
	}
	return strings.Join(out, ",")
}

func genOsfs(r *rng) string {
	names := []string{"GOPR0001.mp4", "GP010001.mp4", "GOPR0001-JOINED.mp4", "a b.MP4"}
	var seq []string
	n := 2 + r.intn(8)
	for k := 0; k < n; k++ {
		nm := hexStr(pick(r, names))
		switch r.intn(8) {
		case 7:
			// a video that is a symbolic link into a library kept elsewhere
			seq = append(seq, fmt.Sprintf("l:%s:%d", nm, 1000000+r.intn(900000000)), "s:"+nm)
		case 0, 1:
			seq = append(seq, "w:"+nm)
		case 2, 3:
			seq = append(seq, fmt.Sprintf("h:%s:%d:%d", nm, 1000000+r.intn(900000000), 1000000+r.intn(900000000)))
			seq = append(seq, "s:"+nm)
		case 4:
			seq = append(seq, "s:"+nm)
		case 5:
			seq = append(seq, "r:"+nm)
		default:
			if r.bool() {
				seq = append(seq, "t:"+hexStr("gopro-process-"))
			} else {
				seq = append(seq, "d")
			}
		}
	}
	return "osfs " + strings.Join(seq, ",")
}

func genGP(cfg *config, r *rng, i int, s *sink) string {
	kind := i % 10
	if cfg.prop == "C05" && i%25 == 3 {
		s.count("gp.osfs")
		return genOsfs(r)
	}
	switch {
	case kind == 0:
		s.count("gp.match")
		return fmt.Sprintf("match %s %s", pick(r, []string{"Hero5", "Hero10"}), hexStr(gpRandName(r)))
	case kind == 1:
		s.count("gp.validate")
		n := r.intn(6)
		if r.chance(1, 3) {
			n = 7 + r.intn(124) // long recordings: two- and three-digit chapter numbers
		}
		start := r.intn(3)
		var chs []string
		for k := 0; k < n; k++ {
			c := start + k
			if r.chance(1, 6) {
				c += r.rangeInt(-1, 1)
			}
			if c < 0 {
				c = 0
			}
			chs = append(chs, fmt.Sprintf("%02d", c))
		}
		if r.chance(1, 10) && n > 0 {
			chs[r.intn(n)] = pick(r, []string{"1", "001", "0a", ""})
		}
		return "validate " + hexList(chs)
	case kind == 2:
		s.count("gp.args")
		pool := []string{"-i", "", "-y", "x", "-c:v", "copy"}
		n := r.intn(7)
		var as []string
		for k := 0; k < n; k++ {
			as = append(as, pool[r.intn(len(pool))])
		}
		return "args " + hexList(as)
	}
	s.count("gp.proc")
	// listing: a subset of the universe plus a few random names, some of them directories
	var ents []string
	seen := map[string]bool{}
	n := r.intn(3 + i/60)
	if n > 12 {
		n = 12
	}
	// modification times: distinct small numbers, or — a camera whose clock was never set, an archive
	// unpacked without times — every file dated exactly the epoch (second 0 is a time like any other)
	epoch := r.chance(1, 10)
	if epoch {
		s.count("gp.mtime.epoch")
	}
	mtOf := func(k int) int {
		if epoch {
			return 0
		}
		return 1000 + k
	}
	for k := 0; k < n+1; k++ {
		name := pick(r, gpNameUniverse)
		if r.chance(1, 5) {
			name = gpRandName(r)
		}
		if name == "" || name == "." || strings.ContainsAny(name, "/\n,:;= ") || seen[name] {
			continue
		}
		seen[name] = true
		kindc := "f"
		if r.chance(1, 8) {
			kindc = "d"
		}
		ents = append(ents, fmt.Sprintf("%s:%s:%d", hexStr(name), kindc, mtOf(len(ents))))
	}
	if r.chance(1, 8) {
		// a long recording: a contiguous group that reaches chapter 10 and beyond
		k := 9 + r.intn(5)
		first := 1
		if r.chance(1, 4) {
			first = 0
		}
		hero5 := r.chance(1, 2)
		if hero5 {
			ents = append(ents, fmt.Sprintf("%s:f:%d", hexStr("GOPR0042.mp4"), mtOf(len(ents))))
		}
		for c := first; c < first+k; c++ {
			name := fmt.Sprintf("GX%02d0042.mp4", c)
			if hero5 {
				if c == 0 {
					continue
				}
				name = fmt.Sprintf("GP%02d0042.mp4", c)
			}
			if !seen[name] {
				seen[name] = true
				ents = append(ents, fmt.Sprintf("%s:f:%d", hexStr(name), mtOf(len(ents))))
			}
		}
	}
	if r.chance(1, 12) {
		ents = nil
	}
	if r.chance(1, 6) {
		// some of the videos are symbolic links (a library kept elsewhere): files like any other
		for i := range ents {
			if r.chance(1, 2) {
				ents[i] = strings.Replace(ents[i], ":f:", ":l:", 1)
			}
		}
		s.count("gp.symlinks")
	}
	l := "~"
	if len(ents) > 0 {
		l = strings.Join(ents, ",")
	}
	src := pick(r, []string{".", ".", "src", "a/b"})
	outd := pick(r, []string{"", "", ".", "out", "a/out"})
	tmpl := pick(r, []string{"N,L" + hexStr("-JOINED") + ",E", "L" + hexStr("out-") + ",N,E", "N,L" + hexStr(".joined"), "L" + hexStr("fixed.mp4"), "N,E"})
	args := []string{"-y", "-f", "concat", "-i", "", "-c", "copy"}
	switch r.intn(6) {
	case 0:
		args = []string{"-i", ""}
	case 1:
		args = []string{"-metadata", "", "-i", "", "-x"}
	case 2:
		args = []string{"x", ""}
	case 3:
		args = []string{"", "-i", "", "-i", ""}
	}
	var skip []string
	if r.chance(1, 3) {
		skip = append(skip, pick(r, gpNameUniverse[:12]))
	}
	// pre-existing files: sometimes exactly an output some group will want
	var extra []string
	if r.chance(1, 2) {
		for _, cand := range []string{"GOPR0001-JOINED.mp4", "out-GOPR0001.mp4", "fixed.mp4", "out/GOPR0001-JOINED.mp4", "src/GOPR0001-JOINED.mp4", "GH010003-JOINED.mp4", "a/b/GX010004-JOINED.mp4"} {
			if r.chance(1, 3) {
				extra = append(extra, fmt.Sprintf("%s:%d", hexStr(cand), 5000+len(extra)))
			}
		}
	}
	x := "~"
	if len(extra) > 0 {
		x = strings.Join(extra, ",")
	}
	fault := "-"
	if r.chance(1, 2) {
		fault = fmt.Sprint(r.intn(14))
	}
	// the error value a failing operation reports: a private one, or one of the well-known ones
	ek := pick(r, []int{0, 0, 1, 1, 2, 3, 4, 5, 6})
	return fmt.Sprintf("proc L=%s S=%s O=%s T=%s A=%s K=%s W=%d F=%s X=%s EK=%d", l, hexStr(src), hexStr(outd), tmpl,
		hexList(args), hexList(skip), r.intn(2), fault, x, ek)
}

func chapterRange(from, to int) []string {
	var out []string
	for c := from; c <= to; c++ {
		out = append(out, fmt.Sprintf("%02d", c))
	}
	return out
}

func corpusGP(cfg *config) []string {
	ops := []string{
		"match Hero5 " + hexStr("GP010001xmp4"),
		"match Hero5 " + hexStr("GOPR0001.mp4"),
		"match Hero10 " + hexStr("gx010001.MP4"),
		"args " + hexList([]string{"x", ""}),
		"args " + hexList([]string{"-metadata", "", "-i", ""}),
		"args " + hexList([]string{"", "-i", ""}),
		"validate ~",
		"validate " + hexList(chapterRange(1, 10)),
		"validate " + hexList(chapterRange(0, 10)),
		"validate " + hexList(chapterRange(1, 99)),
		"validate " + hexList(chapterRange(0, 100)),
		"osfs l:" + hexStr("GOPR0001.mp4") + ":1646370367,s:" + hexStr("GOPR0001.mp4") + ",d,h:" + hexStr("GOPR0001.mp4") + ":5:777777777,s:" + hexStr("GOPR0001.mp4") + ",r:" + hexStr("GOPR0001.mp4") + ",s:" + hexStr("GOPR0001.mp4"),
		"osfs w:" + hexStr("a.mp4") + ",h:" + hexStr("a.mp4") + ":1111111:2222222,s:" + hexStr("a.mp4") + ",t:" + hexStr("gopro-process-") + ",d,r:" + hexStr("a.mp4") + ",s:" + hexStr("a.mp4"),
	}
	// a fixed input (-i logo.png) before the slot the concat list goes into
	ops = append(ops, "proc L="+strings.Join([]string{hexStr("GOPR0001.mp4") + ":f:1001", hexStr("GP010001.mp4") + ":f:1002"}, ",")+
		" S="+hexStr(".")+" O=- T=N,L"+hexStr("-JOINED")+",E A="+hexList([]string{"-y", "-i", "logo.png", "-f", "concat", "-safe", "0", "-i", "", "-filter_complex", "overlay=10:10", "-c:a", "copy"})+" K=~ W=0 F=- X=~")
	// a directory of exactly 256 entries, then of 512 (a listing read in batches must not trip over a
	// whole number of batches), and a file dated exactly the epoch
	var many []string
	for k := 0; k < 256; k++ {
		many = append(many, "w:"+hexStr(fmt.Sprintf("GX01%04d.mp4", k+1)))
	}
	ops = append(ops, "osfs "+strings.Join(many, ",")+",d")
	for k := 256; k < 512; k++ {
		many = append(many, "w:"+hexStr(fmt.Sprintf("GX01%04d.mp4", k+1)))
	}
	ops = append(ops, "osfs "+strings.Join(many, ",")+",d")
	ops = append(ops, "osfs w:"+hexStr("a.mp4")+",h:"+hexStr("a.mp4")+":0:0,s:"+hexStr("a.mp4"))
	// every single failing operation of one fixed scenario (fault enumeration in support of
	// the correspondence; the all-schedules claim is the theorem)
	base := "proc L=" + strings.Join([]string{hexStr("GOPR0001.mp4") + ":f:1001", hexStr("GP010001.mp4") + ":f:1002", hexStr("GH010003.mp4") + ":f:1003", hexStr("sub") + ":d:1004"}, ",") +
		" S=" + hexStr(".") + " O=- T=N,L" + hexStr("-JOINED") + ",E A=" + hexList([]string{"-y", "-i", "", "-c", "copy"}) + " K=~ W=0 F=%s X=~"
	ops = append(ops, fmt.Sprintf(base, "-"))
	for k := 0; k < 22; k++ {
		ops = append(ops, fmt.Sprintf(base, fmt.Sprint(k)))
		// ... reporting "does not exist" and "permission denied"
		ops = append(ops, fmt.Sprintf(base, fmt.Sprint(k))+" EK=1", fmt.Sprintf(base, fmt.Sprint(k))+" EK=2")
	}
	return ops
}
