package main

// splitmix64: every random choice of a run derives from one seeded state so that a
// disagreement replays exactly.
type rng struct{ s uint64 }

func newRng(seed uint64) *rng { return &rng{s: seed*0x9E3779B97F4A7C15 + 0x1234567} }

func (r *rng) u64() uint64 {
	r.s += 0x9E3779B97F4A7C15
	z := r.s
	z = (z ^ (z >> 30)) * 0xBF58476D1CE4E5B9
	z = (z ^ (z >> 27)) * 0x94D049BB133111EB
	return z ^ (z >> 31)
}

// intn returns a value in [0, n).
func (r *rng) intn(n int) int {
	if n <= 0 {
		return 0
	}
	return int(r.u64() % uint64(n))
}

// rangeInt returns a value in [lo, hi].
func (r *rng) rangeInt(lo, hi int) int { return lo + r.intn(hi-lo+1) }

func (r *rng) bool() bool { return r.u64()&1 == 1 }

// chance returns true with probability num/den.
func (r *rng) chance(num, den int) bool { return r.intn(den) < num }

func (r *rng) float01() float64 { return float64(r.u64()>>11) / (1 << 53) }

func pick[T any](r *rng, xs []T) T { return xs[r.intn(len(xs))] }

func shuffle[T any](r *rng, xs []T) {
	for i := len(xs) - 1; i > 0; i-- {
		j := r.intn(i + 1)
		xs[i], xs[j] = xs[j], xs[i]
	}
}
