package main

import (
	"encoding/hex"
	"fmt"
	"math/big"
	"os"
	"path/filepath"
	"sort"
	"strings"
	"time"

	"github.com/stevenh/tracktools/pkg/trackaddict"
)

func init() {
	areas["TA"] = &area{gen: genTA, exec: execTA, corpus: corpusTA}
}

// ---- implementation side ---------------------------------------------------------------

// taHangs counts decodes that did not return within the watchdog; each leaves a spinning
// goroutine behind, so after three the rest of the run is skipped ("hang-skipped").
var taHangs int

func taDecode(text []byte) (string, *trackaddict.Session) {
	if taHangs >= 3 {
		return "hang-skipped", nil
	}
	type res struct {
		cls  string
		sess *trackaddict.Session
	}
	ch := make(chan res, 1)
	go func() {
		var sess *trackaddict.Session
		cls, _ := classify(func() error {
			rd, done := readerFor(text, true)
			defer done()
			d, err := trackaddict.NewDecoder(rd)
			if err != nil {
				return err
			}
			s, err := d.Decode()
			if err != nil {
				return err
			}
			sess = s
			return nil
		})
		ch <- res{cls, sess}
	}()
	select {
	case r := <-ch:
		return r.cls, r.sess
	case <-time.After(30 * time.Second):
		taHangs++
		return "hang", nil
	}
}

func b01(b bool) string {
	if b {
		return "1"
	}
	return "0"
}

func optF(p *float64) string {
	if p == nil {
		return "-"
	}
	return hexFloat(*p)
}

func dumpRecord(r *trackaddict.Record) string {
	tm := "z"
	if !r.Time.IsZero() {
		tm = fmt.Sprintf("%d:%d", r.Time.Unix(), r.Time.Nanosecond())
	}
	accel := "-"
	if r.Accel != nil {
		accel = hexFloat(r.Accel.X) + ":" + hexFloat(r.Accel.Y) + ":" + hexFloat(r.Accel.Z)
	}
	obd := "-"
	if o := r.OBD; o != nil {
		obd = strings.Join([]string{b01(o.Update), optF(o.Speed), optF(o.EngineSpeed), optF(o.Throttle),
			optF(o.CoolantTemp), optF(o.IntakeTemp), optF(o.ManifoldPressure)}, ":")
	}
	return strings.Join([]string{
		fmt.Sprint(int64(r.Now)), tm, fmt.Sprint(r.Lap), fmt.Sprint(int64(r.Predicted)), fmt.Sprint(int64(r.Offset)),
		b01(r.GPS.Update), fmt.Sprint(int64(r.GPS.Delay)), hexFloat(r.GPS.Latitude), hexFloat(r.GPS.Longitude),
		hexFloat(r.GPS.Altitude), hexFloat(r.GPS.Accuracy), hexFloat(r.GPS.Heading), hexFloat(r.Speed),
		accel, b01(r.Brake), hexFloat(r.BarometricPressure), hexFloat(r.PressureAltitute), obd,
	}, ",")
}

func dumpSession(s *trackaddict.Session) string {
	var b strings.Builder
	keys := make([]string, 0, len(s.Metadata))
	for k := range s.Metadata {
		keys = append(keys, k)
	}
	sort.Strings(keys) // anything that came out of a Go map is key-sorted
	md := "-"
	if len(keys) > 0 {
		parts := make([]string, len(keys))
		for i, k := range keys {
			parts[i] = hexStr(k) + ":" + hexStr(s.Metadata[k])
		}
		md = strings.Join(parts, ";")
	}
	fmt.Fprintf(&b, "V=%s E=%s,%s,%s M=%s L=%d", hexStr(s.Vehicle),
		hexFloat(s.Endpoint.Latitude), hexFloat(s.Endpoint.Longitude), hexFloat(s.Endpoint.Heading), md, len(s.Laps))
	for _, l := range s.Laps {
		fmt.Fprintf(&b, " [%d %d %d", l.Number, int64(l.Duration), len(l.Records))
		for i := range l.Records {
			b.WriteString(" (" + dumpRecord(&l.Records[i]) + ")")
		}
		b.WriteString("]")
	}
	return b.String()
}

var taPairField = map[string]func(r *trackaddict.Record) *float64{
	"Speed":              func(r *trackaddict.Record) *float64 { return &r.Speed },
	"GPS_Altitude":       func(r *trackaddict.Record) *float64 { return &r.GPS.Altitude },
	"GPS_Accuracy":       func(r *trackaddict.Record) *float64 { return &r.GPS.Accuracy },
	"PressureAltitute":   func(r *trackaddict.Record) *float64 { return &r.PressureAltitute },
	"BarometricPressure": func(r *trackaddict.Record) *float64 { return &r.BarometricPressure },
	"OBD_ManifoldPressure": func(r *trackaddict.Record) *float64 {
		return obdField(r, func(o *trackaddict.OBD) *float64 { return o.ManifoldPressure })
	},
	"OBD_CoolantTemp": func(r *trackaddict.Record) *float64 {
		return obdField(r, func(o *trackaddict.OBD) *float64 { return o.CoolantTemp })
	},
	"OBD_IntakeTemp": func(r *trackaddict.Record) *float64 {
		return obdField(r, func(o *trackaddict.OBD) *float64 { return o.IntakeTemp })
	},
	"OBD_Speed": func(r *trackaddict.Record) *float64 {
		return obdField(r, func(o *trackaddict.OBD) *float64 { return o.Speed })
	},
}

func obdField(r *trackaddict.Record, f func(*trackaddict.OBD) *float64) *float64 {
	if r.OBD == nil {
		return nil
	}
	return f(r.OBD)
}

func execTA(_ *config, op string) string {
	f := strings.Fields(op)
	unhex := func(s string) []byte {
		if s == "-" {
			return nil
		}
		b, _ := hex.DecodeString(s)
		return b
	}
	switch f[0] {
	case "dec":
		cls, sess := taDecode(unhex(f[2]))
		if cls == "ok" {
			return "ok " + dumpSession(sess)
		}
		return cls
	case "pair":
		get := taPairField[f[1]]
		var out []string
		for _, h := range f[2:4] {
			cls, sess := taDecode(unhex(h))
			if cls == "panic" || cls == "hang" || cls == "hang-skipped" {
				return cls
			}
			if cls != "ok" || len(sess.Laps) == 0 || len(sess.Laps[0].Records) == 0 {
				return "failed"
			}
			p := get(&sess.Laps[0].Records[0])
			if p == nil {
				return "failed"
			}
			out = append(out, hexFloat(*p))
		}
		return strings.Join(out, " ")
	}
	return "bad"
}

// ---- generators --------------------------------------------------------------------------

type taCol struct {
	header string
	kind   string // dur | unix | int | bool | float
}

var taCols = []taCol{
	{"Time", "dur"}, {"UTC Time", "unix"}, {"Lap", "int"}, {"Predicted Lap Time", "dur"},
	{"Predicted vs Best Lap", "sdur"}, {"GPS_Update", "bool"}, {"GPS_Delay", "dur"},
	{"Latitude", "float"}, {"Longitude", "float"}, {"Altitude (m)", "float"}, {"Altitude (ft)", "float"},
	{"Speed (MPH)", "float"}, {"Speed (Km/h)", "float"}, {"Heading", "float"}, {"Accuracy (m)", "float"},
	{"Accuracy (ft)", "float"}, {"Accel X", "float"}, {"Accel Y", "float"}, {"Accel Z", "float"},
	{"Brake (calculated)", "bool"}, {"Barometric Pressure (PSI)", "float"}, {"Barometric Pressure (kPa)", "float"},
	{"Pressure Altitude (ft)", "float"}, {"Pressure Altitude (m)", "float"}, {"OBD_Update", "bool"},
	{"Engine Speed (RPM) *OBD", "float"}, {"Vehicle Speed (mph) *OBD", "float"}, {"Vehicle Speed (km/h) *OBD", "float"},
	{"Throttle Position (%) *OBD", "float"}, {"Engine Coolant Temp (F) *OBD", "float"}, {"Engine Coolant Temp (C) *OBD", "float"},
	{"Intake Air Temp (F) *OBD", "float"}, {"Intake Air Temp (C) *OBD", "float"},
	{"Intake Manifold Pressure (PSI) *OBD", "float"}, {"Intake Manifold Pressure (kPa) *OBD", "float"},
}

func taValue(r *rng, kind string) string {
	switch kind {
	case "dur":
		return fmt.Sprintf("%d.%03d", r.intn(4000), r.intn(1000))
	case "sdur":
		s := fmt.Sprintf("%d.%03d", r.intn(100), r.intn(1000))
		if r.chance(1, 2) {
			return "-" + s
		}
		return s
	case "unix":
		return fmt.Sprintf("%d.%03d", 1500000000+r.intn(400000000), r.intn(1000))
	case "int":
		return fmt.Sprint(r.intn(30))
	case "bool":
		if r.chance(1, 12) {
			return pick(r, []string{"t", "T", "TRUE", "true", "True", "f", "F", "FALSE", "false", "False"})
		}
		return pick(r, []string{"0", "1"})
	default:
		return taFloat(r)
	}
}

func taFloat(r *rng) string {
	sign := ""
	if r.chance(1, 3) {
		sign = "-"
	}
	switch r.intn(8) {
	case 0:
		return sign + fmt.Sprint(r.intn(400))
	case 1:
		return sign + fmt.Sprintf("%d.%d", r.intn(400), r.intn(10))
	case 2:
		return sign + fmt.Sprintf("%d.%02d", r.intn(400), r.intn(100))
	case 3:
		return sign + fmt.Sprintf("%d.%03d", r.intn(20000), r.intn(1000))
	case 4:
		return sign + fmt.Sprintf("%d.%07d", r.intn(180), r.intn(10000000))
	case 5:
		return sign + fmt.Sprintf("0.%02d", r.intn(100))
	case 6:
		return sign + fmt.Sprintf("%d.%012d", r.intn(1000), r.u64()%1000000000000)
	default:
		return sign + fmt.Sprintf("%d", r.u64()%100000000)
	}
}

// taLog renders a well-formed log: header comments, a quoted or bare header row, data rows,
// lap markers, trailing comments.
func taLog(r *rng, maxRows int, s *sink) string {
	idx := make([]int, len(taCols))
	for i := range idx {
		idx[i] = i
	}
	shuffle(r, idx)
	nc := 1 + r.intn(len(taCols))
	if r.chance(1, 5) {
		nc = len(taCols)
	}
	idx = idx[:nc]
	if r.chance(1, 2) {
		sort.Ints(idx) // TrackAddict's own order
	}
	eol := "\n"
	if r.chance(1, 6) {
		eol = "\r\n"
	}
	var b strings.Builder
	comment := func() {
		switch r.intn(8) {
		case 0:
			// (the blank after the colon is optional, before it is part of the key's trimming)
			b.WriteString("# Vehicle:" + pick(r, []string{" ", " ", "", "  "}) + pick(r, []string{"2019 McLaren 720S", " spaced  ", "", "A:B:C", "Ünïcode ✓"}) + eol)
		case 1:
			fmt.Fprintf(&b, "# End Point: %s, %s  @ %s deg%s", taFloat(r), taFloat(r), taFloat(r), eol)
		case 2:
			b.WriteString("# GPS: iOS; Type: 1" + eol)
		case 3:
			b.WriteString("# Session End" + eol)
		case 4:
			b.WriteString("# OBD Mode: BLE; ID: \"OBDII  v2.2\"" + eol)
		case 5:
			b.WriteString("# Device Free Space:" + pick(r, []string{" ", "", "\t"}) + fmt.Sprint(r.intn(99999)) + " MB" + eol)
		case 6:
			b.WriteString("# GPS: second value" + eol)
		default:
			b.WriteString("# Sector 1: 00:02:03.202" + eol)
		}
	}
	lapNo := 0
	if r.chance(1, 6) {
		lapNo = r.intn(3)
	}
	markers := 0
	// a lap marker may stand anywhere, also among the header comments before the column names
	// and straight after them (a lap without rows)
	earlyMarker := func(where string) {
		if r.chance(1, 10) {
			fmt.Fprintf(&b, "# Lap %d: %02d:%02d:%02d.%03d%s", lapNo, r.intn(2), r.intn(60), r.intn(60), r.intn(1000), eol)
			lapNo += 1 + boolInt(r.chance(1, 8))
			markers++
			s.count("wf.marker." + where)
		}
	}
	for n := r.intn(5); n > 0; n-- {
		comment()
		earlyMarker("before_columns")
	}
	quoted := r.chance(2, 3)
	hs := make([]string, nc)
	for i, ci := range idx {
		hs[i] = taCols[ci].header
		if quoted {
			hs[i] = `"` + hs[i] + `"`
		}
	}
	b.WriteString(strings.Join(hs, ",") + eol)
	earlyMarker("after_columns")
	rows := r.intn(maxRows + 1)
	var prevVals []string
	for i := 0; i < rows; i++ {
		vals := make([]string, nc)
		// two samples logged in the same millisecond are two samples (the real log has such pairs)
		sameTick := prevVals != nil && r.chance(1, 8)
		if sameTick {
			s.count("wf.row.same_timestamp")
		}
		for j, ci := range idx {
			vals[j] = taValue(r, taCols[ci].kind)
			if sameTick && (taCols[ci].header == "UTC Time" || taCols[ci].header == "Time") {
				vals[j] = prevVals[j]
				continue
			}
			if r.chance(1, 40) {
				vals[j] = `"` + vals[j] + `"`
			}
		}
		prevVals = vals
		b.WriteString(strings.Join(vals, ",") + eol)
		if r.chance(1, 5) {
			fmt.Fprintf(&b, "# Lap %d:%s%02d:%02d:%02d.%03d%s", lapNo, pick(r, []string{" ", " ", " ", ""}), r.intn(2), r.intn(60), r.intn(60), r.intn(1000), eol)
			lapNo += 1 + r.intn(2)/1*boolInt(r.chance(1, 8))
			if r.chance(1, 12) {
				// a marker that repeats or goes below the laps already closed: must be rejected
				lapNo -= 1 + r.intn(2)
				if lapNo < 0 {
					lapNo = 0
				}
				s.count("wf.marker.backwards")
			}
			markers++
		}
		if r.chance(1, 25) {
			comment()
		}
	}
	if r.chance(1, 3) {
		comment()
	}
	out := b.String()
	if r.chance(1, 8) && strings.HasSuffix(out, eol) {
		out = out[:len(out)-len(eol)] // last line without terminator
	}
	s.count(fmt.Sprintf("wf.cols.%s", bucket(nc)))
	s.count(fmt.Sprintf("wf.rows.%s", bucket(rows)))
	s.count(fmt.Sprintf("wf.markers.%s", bucket(markers)))
	return out
}

func boolInt(b bool) int {
	if b {
		return 1
	}
	return 0
}

func bucket(n int) string {
	switch {
	case n == 0:
		return "0"
	case n == 1:
		return "1"
	case n <= 3:
		return "2-3"
	case n <= 8:
		return "4-8"
	case n <= 20:
		return "9-20"
	default:
		return "21+"
	}
}

// taMutate damages a well-formed log the way real files get damaged.
func taMutate(r *rng, text string, s *sink) string {
	lines := strings.Split(text, "\n")
	n := 1 + r.intn(3)
	for ; n > 0; n-- {
		if len(lines) == 0 {
			break
		}
		li := r.intn(len(lines))
		l := lines[li]
		kind := r.intn(16)
		s.count(fmt.Sprintf("mut.kind.%d", kind))
		switch kind {
		case 0: // delete a field
			fs := strings.Split(l, ",")
			if len(fs) > 1 {
				k := r.intn(len(fs))
				fs = append(fs[:k], fs[k+1:]...)
				lines[li] = strings.Join(fs, ",")
			}
		case 1: // duplicate a field
			fs := strings.Split(l, ",")
			k := r.intn(len(fs))
			fs = append(fs[:k+1], fs[k:]...)
			lines[li] = strings.Join(fs, ",")
		case 2: // truncate the line
			if len(l) > 0 {
				lines[li] = l[:r.intn(len(l))]
			}
		case 3: // drop the colon of a comment
			lines[li] = strings.Replace(l, ":", "", 1)
		case 4: // comment with no value
			lines[li] = pick(r, []string{"# End Point", "# Vehicle", "# Lap 3", "# Lap", "# ", "#", "# :", "# Lap x: 1", "# Lap 1: x", "# End Point: 1, 2 @", "# Lap -1: 00:00:01.000", "# Lap 0: 1:2:3", "# Lap 99999999999999999999: 00:00:00.000",
				// lap times whose components are signed, oversized or have the wrong number of digits
				"# Lap 0: 00:-2:03.202", "# Lap 0: 00:02:03.-202", "# Lap 0: -1:02:03.202", "# Lap 0: 00:02:-3.202",
				"# Lap 0: 9000000:02:03.202", "# Lap 0: 00:02:03.2020", "# Lap 0: 00:02:03", "# Lap 0: 00:02:03.", "# Lap 0: +1:+2:+3.+4",
				"# Lap 0: 00:61:61.000", "# Lap 0: 0:0:0.0", "# End Point: -33.803610, 150.870900  @ 271.50 deg", "# End Point: 33.8, -150.8  @ -10 deg",
				// end points whose fields look like numbers to the pattern and are none
				"# End Point: 50.857952, -0.752617  @ 1.2.3 deg", "# End Point: 50.857952, -0.752617  @ - deg", "# End Point: 50.857952, -0.752617  @ 90-0 deg",
				"# End Point: 50.8.5, -0.752617  @ 10 deg", "# End Point: 50.857952, -0.75-2  @ 10 deg", "# End Point: -, .  @ - deg"})
		case 5: // blank line
			lines = append(lines[:li+1], append([]string{""}, lines[li+1:]...)...)
		case 6: // stray quote
			if len(l) > 0 {
				k := r.intn(len(l) + 1)
				lines[li] = l[:k] + `"` + l[k:]
			}
		case 7: // unparsable value
			fs := strings.Split(l, ",")
			k := r.intn(len(fs))
			fs[k] = pick(r, []string{"", "abc", "1.2.3", "--1", "1e5", "0x10", "NaN", "Inf", "1_0", " 1", "1 ", "+", "-", ".", "9223372036854775808", "1.", ".5", "١٢", "1e999", "2"})
			lines[li] = strings.Join(fs, ",")
		case 8: // unknown column
			if li < len(lines) {
				lines[li] = strings.Replace(l, "Lap", "Lop", 1)
			}
			// ... or an unknown metric that looks like the known ones (with the OBD suffix), in the header
			for hi, h := range lines {
				if strings.Contains(h, "Time") && !strings.HasPrefix(h, "#") && r.chance(1, 2) {
					for _, known := range []string{"Engine Speed (RPM) *OBD", "Throttle Position (%) *OBD", "Altitude (m)", "Heading"} {
						if strings.Contains(h, known) {
							lines[hi] = strings.Replace(h, known, pick(r, []string{"Fuel Level (%) *OBD", "Oil Temp (C) *OBD", "Altitude (km)", "Heading *OBD", " *OBD"}), 1)
							break
						}
					}
					break
				}
			}
		case 9: // random bytes
			bs := make([]byte, 1+r.intn(12))
			for i := range bs {
				bs[i] = byte(r.intn(256))
			}
			k := r.intn(len(l) + 1)
			lines[li] = l[:k] + string(bs) + l[k:]
		case 10: // overlong line (bufio.Scanner limit)
			if n := 65536 - len(l) + r.rangeInt(-2, 2); n > 0 && r.chance(1, 6) {
				lines[li] = l + strings.Repeat("9", n)
			}
		case 11: // duplicate the line
			lines = append(lines[:li+1], lines[li:]...)
		case 12: // delete the line
			lines = append(lines[:li], lines[li+1:]...)
		case 14: // one more, empty field at the end of the line (a trailing comma), or in front
			if r.chance(3, 4) {
				lines[li] = l + ","
			} else {
				lines[li] = "," + l
			}
		case 15: // the header line once more, further down (two logs glued together)
			for _, h := range lines {
				if strings.HasPrefix(h, "Time,") || strings.HasPrefix(h, `"Time"`) {
					lines = append(lines[:li+1], append([]string{h}, lines[li+1:]...)...)
					break
				}
			}
		default: // swap two characters
			if len(l) > 1 {
				bs := []byte(l)
				a, c := r.intn(len(bs)), r.intn(len(bs))
				bs[a], bs[c] = bs[c], bs[a]
				lines[li] = string(bs)
			}
		}
	}
	return strings.Join(lines, "\n")
}

var taDual = []struct {
	target, imp, met string
	conv             string // mul:<const> | f2c
}{
	{"Speed", "Speed (MPH)", "Speed (Km/h)", "mul:1.60934"},
	{"GPS_Altitude", "Altitude (ft)", "Altitude (m)", "mul:0.3048"},
	{"PressureAltitute", "Pressure Altitude (ft)", "Pressure Altitude (m)", "mul:0.3048"},
	{"GPS_Accuracy", "Accuracy (ft)", "Accuracy (m)", "mul:0.3048"},
	{"BarometricPressure", "Barometric Pressure (PSI)", "Barometric Pressure (kPa)", "mul:6.89476"},
	{"OBD_ManifoldPressure", "Intake Manifold Pressure (PSI) *OBD", "Intake Manifold Pressure (kPa) *OBD", "mul:6.89476"},
	{"OBD_CoolantTemp", "Engine Coolant Temp (F) *OBD", "Engine Coolant Temp (C) *OBD", "f2c"},
	{"OBD_IntakeTemp", "Intake Air Temp (F) *OBD", "Intake Air Temp (C) *OBD", "f2c"},
	{"OBD_Speed", "Vehicle Speed (mph) *OBD", "Vehicle Speed (km/h) *OBD", "mul:1.60934"},
}

// ratDecimal prints an exact rational with a finite decimal expansion.
func ratDecimal(x *big.Rat) string {
	return x.FloatString(24)
}

// taPair builds two single-row logs stating the same physical value in the imperial and
// in the metric column (exact decimal arithmetic), embedded in independent random layouts.
func taPair(r *rng, s *sink) string {
	q := taDual[r.intn(len(taDual))]
	var imp, met string
	if q.conv == "f2c" {
		// choose the Celsius value c with ≤3 decimals; F = c*9/5 + 32 is then an exact decimal
		c := new(big.Rat).SetFrac64(int64(r.rangeInt(-60000, 250000)), 1000)
		f := new(big.Rat).Mul(c, big.NewRat(9, 5))
		f.Add(f, big.NewRat(32, 1))
		imp, met = ratDecimal(f), ratDecimal(c)
	} else {
		k, _ := new(big.Rat).SetString(strings.TrimPrefix(q.conv, "mul:"))
		den := []int64{1, 10, 100, 1000}[r.intn(4)]
		v := new(big.Rat).SetFrac64(int64(r.rangeInt(-3000000, 3000000)), den)
		imp, met = ratDecimal(v), ratDecimal(new(big.Rat).Mul(v, k))
	}
	imp, met = trimDecimal(imp), trimDecimal(met)
	layout := func(header, value string) string {
		// the quantity's column among random other (non-conflicting) columns, random position
		others := []taCol{}
		for _, c := range taCols {
			if c.header == q.imp || c.header == q.met || !r.chance(1, 4) {
				continue
			}
			others = append(others, c)
		}
		shuffle(r, others)
		pos := r.intn(len(others) + 1)
		hs, vs := []string{}, []string{}
		for i := 0; i <= len(others); i++ {
			if i == pos {
				hs = append(hs, header)
				vs = append(vs, value)
			}
			if i < len(others) {
				hs = append(hs, others[i].header)
				vs = append(vs, taValue(r, others[i].kind))
			}
		}
		return strings.Join(hs, ",") + "\n" + strings.Join(vs, ",") + "\n"
	}
	s.count("pair." + q.target)
	return fmt.Sprintf("pair %s %s %s", q.target, hexStr(layout(q.imp, imp)), hexStr(layout(q.met, met)))
}

func trimDecimal(s string) string {
	if strings.Contains(s, ".") {
		s = strings.TrimRight(s, "0")
		s = strings.TrimSuffix(s, ".")
	}
	return s
}

func genTA(cfg *config, r *rng, i int, s *sink) string {
	maxRows := 4 + i/50
	if maxRows > 40 {
		maxRows = 40
	}
	if cfg.tier == "thorough" && maxRows > 30 && r.chance(1, 50) {
		maxRows = 400
	}
	// stream mix by property: C02 well-formed logs, C15 damaged text, C10 unit pairs
	k := i % 10
	var stream string
	switch cfg.prop {
	case "C02":
		stream = "wf"
	case "C15":
		stream = "mut"
		if k == 0 {
			stream = "wf"
		}
	case "C10":
		stream = "pair"
		if k < 4 {
			stream = "wf"
		}
	default:
		stream = []string{"wf", "wf", "wf", "wf", "mut", "mut", "mut", "mut", "pair", "pair"}[k]
	}
	s.count("stream." + stream)
	switch stream {
	case "wf":
		return "dec wf " + hexStr(taLog(r, maxRows, s))
	case "mut":
		return "dec mut " + hexStr(taMutate(r, taLog(r, maxRows, s), s))
	default:
		return taPair(r, s)
	}
}

// corpusTA: the real TrackAddict log (head in quick, whole file in thorough) and fixed seeds.
func corpusTA(cfg *config) []string {
	ops := []string{
		"dec mut " + hexStr("# End Point\n"),
		"dec mut " + hexStr("# Vehicle\n"),
		"dec mut " + hexStr("# Lap 3\n"),
		"dec mut " + hexStr("# Session End\n"),
		// two different samples in the same millisecond
		"dec wf " + hexStr("Time,UTC Time,GPS_Update,Latitude\n0.000,1653983971.010,1,50.8590633\n0.010,1653983971.020,0,50.8590633\n0.010,1653983971.020,1,50.8590192\n0.020,1653983971.030,1,50.8589770\n"),
		// a flag column holding one character that is no flag
		"dec mut " + hexStr("Time,GPS_Update,Latitude\n0.000,1,50.8590633\n0.010,x,50.8590633\n"),
		"dec mut " + hexStr("Time,Brake (calculated),OBD_Update\n0.000,0,1\n0.010,7,1\n0.020,0,-\n"),
		// a lap marker before the column names: the rows after it belong to the next lap
		"dec wf " + hexStr("# Vehicle: X\n# Lap 0: 00:00:10.000\nTime,Lap\n0.000,1\n0.100,1\n# Lap 1: 00:00:20.500\n0.000,2\n# Session End\n"),
		"dec mut " + hexStr("# End Point: 50.857952, -0.752617  @ 1.2.3 deg\nTime\n1.000\n"),
		"dec mut " + hexStr("# End Point: 50.857952, -0.752617  @ - deg\nTime\n1.000\n"),
		"dec mut " + hexStr("# End Point: 50.8.5, -0.752617  @ 10 deg\nTime\n1.000\n"),
		"dec wf " + hexStr("Accuracy (ft)\n10\n"),
		"dec wf " + hexStr(""),
		"dec wf " + hexStr("Time\n"),
		"dec wf " + hexStr("Time\n0.5\n"),
		"dec mut " + hexStr("\n"),
		"dec mut " + hexStr("Time\n\n1.000\n"),
		"dec mut " + hexStr("# Lap 0: 00:00:01.000\n# Lap 0: 00:00:01.000\n# Lap 0: 00:00:01.000\n"),
	}

	// garbage in any single column of an otherwise valid row is an error, whichever column it is (the
	// columns stored as text excepted: the model knows which); also an empty field
	for _, c := range taCols {
		for _, junk := range []string{"abc", "", "1.2.3"} {
			ops = append(ops, "dec mut "+hexStr("Time,"+c.header+"\n0.100,"+taValue(newRng(7), c.kind)+"\n0.200,"+junk+"\n"))
		}
	}
	// values that only half parse: every one of them is an unparsable value
	for _, v := range []string{"1653983971.abc", "1653983971.", "1653983971", ".5", "1653983971.010x", "1653983971,010", "abc.010", "1653983971.-10", "+1653983971.010"} {
		ops = append(ops, "dec mut "+hexStr("# Vehicle: Demo\n\"Time\",\"UTC Time\",\"Lap\"\n0.000,1653983971.000,0\n0.010,"+v+",0\n"))
	}
	// a column that is not a TrackAddict column, however much it looks like one
	for _, c := range []string{"Fuel Level (%) *OBD", "Oil Temp (C) *OBD", " *OBD", "Altitude (km)"} {
		ops = append(ops, "dec mut "+hexStr("# Vehicle: Car\n\"Time\",\"Lap\",\"OBD_Update\",\"Engine Speed (RPM) *OBD\",\""+c+"\"\n0.000,0,1,1155.500,42.0\n0.010,0,0,1155.500,43.5\n# Session End\n"))
	}
	// garbage in one of two columns that state the same quantity
	for _, v := range []string{"9x7", "", "97 ft", "abc"} {
		ops = append(ops, "dec mut "+hexStr("Time,Lap,Altitude (m),Altitude (ft),Speed (Km/h),Speed (MPH)\n0.000,0,29.6,97,10.0,6.2\n0.010,0,29.6,"+v+",10.0,6.2\n"))
		ops = append(ops, "dec mut "+hexStr("Time,Lap,Altitude (ft),Altitude (m),Speed (Km/h),Speed (MPH)\n0.000,0,97,29.6,10.0,6.2\n0.010,0,97,29.6,10.0,"+v+"\n"))
	}
	for _, v := range []string{"0.010x", "0.", "1e1", "0,5"} {
		ops = append(ops, "dec mut "+hexStr("Time,Lap\n0.000,0\n"+v+",0\n"))
	}
	p := filepath.Join(cfg.repo, "test", "Log-20220531-085930 Goodwood Motorcircuit - 2.57.527.csv")
	if data, err := os.ReadFile(p); err == nil {
		if cfg.tier != "thorough" {
			lines := strings.SplitAfter(string(data), "\n")
			keep := append([]string{}, lines[:60]...)
			keep = append(keep, lines[2660:2680]...)
			keep = append(keep, lines[6480:6495]...)
			data = []byte(strings.Join(keep, ""))
		}
		ops = append(ops, "dec wf "+hexBytes(data))
	}
	return ops
}
