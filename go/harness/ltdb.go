package main

import (
	"bytes"
	"compress/gzip"
	"encoding/hex"
	"fmt"
	"io"
	"math"
	"reflect"
	"strconv"
	"strings"
	"time"
	"unicode/utf8"

	"github.com/stevenh/tracktools/pkg/laptimer"
	"golang.org/x/text/encoding/charmap"
)

// ---- generic dump / undump of laptimer values by reflection --------------------------------
//
// The dump is type-agnostic (it knows nothing of xml tags): struct "( … )", slice "[ … ]",
// pointer "N" / "P v", string s<hex>, int i<dec>, float f<16 hex bits>, bool b0/b1,
// time.Time-convertible structs t<unix seconds>.<nanoseconds>.

var timeType = reflect.TypeOf(time.Time{})

func ltDump(v reflect.Value, out *[]string) {
	t := v.Type()
	switch v.Kind() {
	case reflect.Struct:
		if t.ConvertibleTo(timeType) {
			tm := v.Convert(timeType).Interface().(time.Time)
			_, off := tm.Zone()
			*out = append(*out, fmt.Sprintf("t%d.%dz%d", tm.Unix(), tm.Nanosecond(), off))
			return
		}
		*out = append(*out, "(")
		for i := 0; i < t.NumField(); i++ {
			f := t.Field(i)
			if !f.IsExported() || f.Name == "XMLName" {
				continue
			}
			ltDump(v.Field(i), out)
		}
		*out = append(*out, ")")
	case reflect.Pointer:
		if v.IsNil() {
			*out = append(*out, "N")
			return
		}
		*out = append(*out, "P")
		ltDump(v.Elem(), out)
	case reflect.Slice:
		*out = append(*out, "[")
		for i := 0; i < v.Len(); i++ {
			ltDump(v.Index(i), out)
		}
		*out = append(*out, "]")
	case reflect.String:
		*out = append(*out, "s"+hexStr(v.String()))
	case reflect.Int, reflect.Int64, reflect.Int32:
		*out = append(*out, "i"+strconv.FormatInt(v.Int(), 10))
	case reflect.Float64:
		*out = append(*out, fmt.Sprintf("f%016x", math.Float64bits(v.Float())))
	case reflect.Bool:
		*out = append(*out, "b"+b01(v.Bool()))
	default:
		panic("ltDump: unsupported kind " + v.Kind().String())
	}
}

func ltDumpDB(db *laptimer.DB) []string {
	var out []string
	ltDump(reflect.ValueOf(db).Elem(), &out)
	return out
}

type ltParser struct {
	toks []string
	pos  int
}

func (p *ltParser) next() string {
	t := p.toks[p.pos]
	p.pos++
	return t
}

func (p *ltParser) undump(v reflect.Value) {
	t := v.Type()
	switch v.Kind() {
	case reflect.Struct:
		if t.ConvertibleTo(timeType) {
			tok := p.next()
			body, zone, _ := strings.Cut(tok[1:], "z")
			parts := strings.SplitN(body, ".", 2)
			sec, _ := strconv.ParseInt(parts[0], 10, 64)
			ns, _ := strconv.ParseInt(parts[1], 10, 64)
			off, _ := strconv.Atoi(zone)
			tm := time.Unix(sec, ns).UTC()
			if off != 0 {
				// the same instant carried in another location
				tm = tm.In(time.FixedZone("verif", off))
			}
			v.Set(reflect.ValueOf(tm).Convert(t))
			return
		}
		if p.next() != "(" {
			panic("undump: expected (")
		}
		for i := 0; i < t.NumField(); i++ {
			f := t.Field(i)
			if !f.IsExported() || f.Name == "XMLName" {
				continue
			}
			p.undump(v.Field(i))
		}
		if p.next() != ")" {
			panic("undump: expected )")
		}
	case reflect.Pointer:
		if p.next() == "N" {
			return
		}
		nv := reflect.New(t.Elem())
		p.undump(nv.Elem())
		v.Set(nv)
	case reflect.Slice:
		if p.next() != "[" {
			panic("undump: expected [")
		}
		for p.toks[p.pos] != "]" {
			nv := reflect.New(t.Elem()).Elem()
			p.undump(nv)
			v.Set(reflect.Append(v, nv))
		}
		p.pos++
	case reflect.String:
		v.SetString(unhexStr(p.next()[1:]))
	case reflect.Int, reflect.Int64, reflect.Int32:
		n, _ := strconv.ParseInt(p.next()[1:], 10, 64)
		v.SetInt(n)
	case reflect.Float64:
		b, _ := strconv.ParseUint(p.next()[1:], 16, 64)
		v.SetFloat(math.Float64frombits(b))
	case reflect.Bool:
		v.SetBool(p.next() == "b1")
	default:
		panic("undump: unsupported kind " + v.Kind().String())
	}
}

// ---- type-directed generator ----------------------------------------------------------------

var ltTexts = []string{
	"Goodwood", "", "'19 McLaren 720s", `say "hi"`, "a & b", "<tag>", "x > y", "tab\there", "line1\nline2", "cr\rhere", "crlf\r\nend",
	"&#34; look-alike", "&quot;", "]]>", "é ü ß", "日本語", "😀 astral", " leading and trailing ", "\n\t\tindented\t\t", "%d %s", "a,b",
	"http://example.com/test?id=1&ext=MP4", "semi;colon", "It’s “quoted” – €5 … ™ Š", "œuvre ž Ÿ", "Nu\u0308rburgring e\u0301 \u2126 \u212b \ufb01" /* not in any normal form: text is kept as written */, "&amp;amp;", "'", `"`, "&", "<", "\t", "\n",
}

// text XML cannot carry: control characters, U+FFFE/U+FFFF, a lone U+FFFD
var ltBadTexts = []string{"a\x01b", "\x00", "bell\x07", "￾", "x￿y", "�", "esc\x1b[0m", "\x0b\x0c"}

type ltGen struct {
	r      *rng
	s      *sink
	domain bool // stay inside C01's representable domain
}

func (g *ltGen) text(field string) string {
	r := g.r
	switch field {
	case "Tags":
		return pick(r, []string{"Me", "Other", "wet track", "", "a&b", `q"t`, "<fast>", "ü", "50% wet", "%d laps", "100%", "%s", " lead", "trail ", "%"})
	case "SpeedRating":
		return pick(r, []string{"ZR", "(Y)", "W", "V", "R", "Y&Z", `"H"`, "ü", "<W>", "%v", "9%"})
	case "DriveWheels":
		return pick(r, []string{"front", "rear", "all", ""})
	case "IntakeType":
		return pick(r, []string{"", "Naturally Aspirated", "Turbocharged", "Supercharged"})
	case "EngineType":
		return pick(r, []string{"", "Otto", "Diesel", "Electric"})
	}
	if r.chance(1, 60) {
		// a long text dense with characters the filter rewrites: crosses several I/O buffers
		g.s.count("lt.text.long")
		unit := pick(r, []string{"line\t\"a\" 'b'\n", "\"'\t\n", "x\n", "'q' & <t>\t"})
		return strings.Repeat(unit, 700+r.intn(1200))
	}
	if !g.domain && r.chance(1, 4) {
		g.s.count("lt.text.nonxml")
		return pick(r, ltTexts) + pick(r, ltBadTexts)
	}
	if r.chance(1, 6) {
		return pick(r, ltTexts) + pick(r, ltTexts)
	}
	return pick(r, ltTexts)
}

func (g *ltGen) decimal(p int, maxInt int, signed bool) float64 {
	r := g.r
	scale := math.Pow(10, float64(p))
	n := float64(r.intn(maxInt*int(scale) + 1))
	v := n / scale
	switch r.intn(12) {
	case 0:
		v = 0
	case 1:
		// more precision than the field prints: the value comes back rounded to the field's precision
		// (and re-encodes to the same bytes)
		v += r.float01() / scale
	case 2:
		v = float64(r.intn(maxInt + 1))
	case 3, 4:
		// below one in magnitude: the integer part is zero and the sign lives in the fraction only
		v = float64(r.intn(int(scale)+1)) / scale
	case 5:
		v = pick(r, []float64{1, 10, 100, 0.5, 9.5, 99.5, 0.1, 999.9})
		if g.domain {
			v = math.Round(v*scale) / scale // at the field's own precision
		}
	}
	if signed && r.chance(1, 3) {
		v = -v
	}
	if signed && r.chance(1, 15) {
		// a negative zero (a value the field's precision can carry: it prints as -0.00 and reads back as
		// itself), and outside the domain a negative value too small for the field to show
		v = math.Copysign(0, -1)
		if r.bool() {
			v = -0.4 / scale * r.float01()
		}
	}
	return v
}

func (g *ltGen) duration() int64 {
	r := g.r
	var d int64
	switch r.intn(6) {
	case 0:
		d = 0
	case 1: // 100+ minutes
		d = int64(100+r.intn(500))*int64(time.Minute) + int64(r.intn(60000))*int64(time.Millisecond)
	default:
		d = int64(r.intn(3600*100)) * 10 * int64(time.Millisecond)
	}
	if !g.domain && r.chance(1, 5) {
		d += int64(r.intn(10_000_000)) // below a centisecond
	}
	return d
}

func (g *ltGen) when(sub bool) time.Time {
	r := g.r
	// 1969-01-01 .. 2068-12-31
	lo, hi := int64(-31536000), int64(3124223999)
	sec := lo + int64(r.u64()%uint64(hi-lo+1))
	switch r.intn(8) {
	case 0:
		sec = pick(r, []int64{-31536000, 3124223999, 0, -1, 946684799, 946684800, 951782400, 1709164800, 2177452800 - 1})
	case 1:
		sec = 1654000000 + int64(r.intn(86400*30))
	}
	ns := 0
	if sub {
		ns = r.intn(100) * 10_000_000
		if !g.domain && r.chance(1, 4) {
			ns = r.intn(1_000_000_000)
		}
	} else if !g.domain && r.chance(1, 4) {
		ns = r.intn(1_000_000_000)
	}
	tm := time.Unix(sec, int64(ns)).UTC()
	if !g.domain && r.chance(1, 25) {
		// Go's zero time: what a lap without a recorded date carries
		g.s.count("lt.time.zero")
		return time.Time{}
	}
	if r.chance(1, 3) {
		tm = tm.In(time.FixedZone("verif", pick(r, []int{7200, -28800, 19800, 50400, -43200})))
	}
	return tm
}

func (g *ltGen) value(v reflect.Value, field string, depth int) {
	r := g.r
	t := v.Type()
	switch v.Kind() {
	case reflect.Struct:
		if t.ConvertibleTo(timeType) {
			v.Set(reflect.ValueOf(g.when(t.Name() == "FixDate")).Convert(t))
			return
		}
		for i := 0; i < t.NumField(); i++ {
			f := t.Field(i)
			if !f.IsExported() || f.Name == "XMLName" {
				continue
			}
			g.value(v.Field(i), f.Name, depth+1)
		}
	case reflect.Pointer:
		if r.chance(1, 3) {
			return
		}
		nv := reflect.New(t.Elem())
		g.value(nv.Elem(), field, depth)
		v.Set(nv)
	case reflect.Slice:
		max := 3
		if field == "Fixes" {
			max = 4
		}
		n := r.intn(max + 1)
		if r.chance(1, 4) {
			n = 0
		}
		for i := 0; i < n; i++ {
			nv := reflect.New(t.Elem()).Elem()
			g.value(nv, field, depth+1)
			v.Set(reflect.Append(v, nv))
		}
	case reflect.String:
		v.SetString(g.text(field))
	case reflect.Bool:
		v.SetBool(r.bool())
	case reflect.Int, reflect.Int64:
		switch t.Name() {
		case "Duration", "SyncPoint":
			v.SetInt(g.duration())
		case "Threshold":
			v.SetInt(int64(r.intn(101)))
		case "LapRecordingType", "DifferentialStatus", "FixType":
			v.SetInt(int64(r.intn(4)))
		case "PositionFixing":
			v.SetInt(int64(r.intn(5)))
		case "TyrePosition":
			v.SetInt(int64(2 + r.intn(4)))
		default:
			switch r.intn(6) {
			case 0:
				v.SetInt(0)
			case 1:
				v.SetInt(-int64(r.intn(500)))
			default:
				v.SetInt(int64(r.intn(20000)))
			}
		}
	case reflect.Float64:
		switch t.Name() {
		case "Float0dp":
			v.SetFloat(g.decimal(0, 2000, true))
		case "Float1dp":
			v.SetFloat(g.decimal(1, 4000, true))
		case "Float2dp":
			v.SetFloat(g.decimal(2, 200, true))
		case "Float":
			v.SetFloat(g.decimal(6, 2000, false))
		default:
			switch field {
			case "Latitude":
				v.SetFloat(g.coord(90))
			case "Longitude":
				v.SetFloat(g.coord(180))
			case "Altitude":
				v.SetFloat(g.decimal(1, 3000, true))
			case "Distance":
				v.SetFloat(g.decimal(1, 30000, false))
			case "Ratio":
				v.SetFloat(g.decimal(6, 5, false))
			default:
				// raw float64 (printed with the shortest representation): any finite value
				switch r.intn(5) {
				case 0:
					v.SetFloat(0)
				case 1:
					v.SetFloat((r.float01()*2 - 1) * math.Pow(10, float64(r.rangeInt(-8, 12))))
				default:
					v.SetFloat(g.decimal(3, 9000, true))
				}
			}
		}
	default:
		panic("gen: unsupported kind " + v.Kind().String())
	}
}

func (g *ltGen) coord(lim int) float64 {
	r := g.r
	v := float64(r.intn(lim*100000000+1)) / 1e8
	switch r.intn(10) {
	case 0:
		v = 0
	case 1:
		v = float64(r.intn(3)) / 1e8 // within a few units of the 8th decimal
	case 2:
		if !g.domain {
			v = r.float01() * 1e-9
		}
	case 3:
		// exactly on the 180th meridian / at a pole, and one unit of the 8th decimal inside
		v = float64(lim)
		if r.bool() {
			v = float64(lim) - 1e-8
		}
		g.s.count("lt.coord.limit")
	}
	if r.chance(1, 2) {
		v = -v
	}
	return v
}

// ---- implementation side --------------------------------------------------------------------

func ltEncode(db *laptimer.DB, gz bool) ([]byte, error) {
	var buf bytes.Buffer
	var opts []laptimer.EncoderOpt
	if gz {
		opts = append(opts, laptimer.Compress())
	}
	e, err := laptimer.NewEncoder(&buf, opts...)
	if err != nil {
		return nil, err
	}
	if err := e.Encode(db); err != nil {
		return nil, err
	}
	return buf.Bytes(), nil
}

func ltDecode(data []byte) (*laptimer.DB, error) {
	var db laptimer.DB
	rd, done := readerFor(data, false)
	defer done()
	if err := laptimer.NewDecoder(rd).Decode(&db); err != nil {
		return nil, err
	}
	return &db, nil
}

func dumpField(toks []string) string {
	if len(toks) == 0 {
		return "~"
	}
	return strings.Join(toks, "/")
}

// ltRoundTrip: rt <dump tokens…>
//
//	=> enc=<hex> dec=<dump|err> enc2=<hex|-> gz=<ok|differs|err> cp=<same|differs|na|err>
func ltRoundTrip(toks []string) string {
	p := &ltParser{toks: toks}
	db := laptimer.NewDB()
	db.Name = ""
	p.undump(reflect.ValueOf(db).Elem())
	enc, err := ltEncode(db, false)
	if err != nil {
		return "encerr"
	}
	dec, derr := ltDecode(enc)
	decS, enc2S := "err", "-"
	if derr == nil {
		decS = dumpField(ltDumpDB(dec))
		if enc2, err := ltEncode(dec, false); err == nil {
			if bytes.Equal(enc2, enc) {
				enc2S = "same"
			} else {
				enc2S = hexBytes(enc2)
			}
		} else {
			enc2S = "err"
		}
	}
	// compression: a complete gzip stream of exactly the plain bytes
	gzS := "err"
	if gzb, err := ltEncode(db, true); err == nil {
		if zr, err := gzip.NewReader(bytes.NewReader(gzb)); err == nil {
			zr.Multistream(false)
			plain, rerr := io.ReadAll(zr)
			rest, _ := io.ReadAll(bytes.NewReader(gzb[len(gzb):]))
			switch {
			case rerr != nil:
				gzS = "truncated"
			case !bytes.Equal(plain, enc) || len(rest) != 0:
				gzS = "differs"
			default:
				gzS = "ok"
			}
		}
	}
	// windows-1252: transcode the document, declare it, decode: same database.  Characters the
	// code page cannot carry are first replaced by '?' in the UTF-8 document too, so that every
	// case exercises the charset reader (the 0x80-0x9F block in particular).
	cpS := "na"
	if utf8.Valid(enc) {
		var sane []byte
		for _, r := range string(enc) {
			if _, ok := charmap.Windows1252.EncodeRune(r); ok {
				sane = utf8.AppendRune(sane, r)
			} else {
				sane = append(sane, '?')
			}
		}
		sdec, serr := ltDecode(sane)
		if cpb, err := charmap.Windows1252.NewEncoder().Bytes(sane); err == nil {
			cpb = bytes.Replace(cpb, []byte(`encoding="UTF-8"`), []byte(`encoding="windows-1252"`), 1)
			cdec, cerr := ltDecode(cpb)
			switch {
			case cerr != nil && serr != nil:
				cpS = "same"
			case cerr != nil:
				cpS = "err"
			case serr != nil:
				cpS = "differs"
			case dumpField(ltDumpDB(cdec)) == dumpField(ltDumpDB(sdec)):
				cpS = "same"
			default:
				cpS = "differs"
			}
		}
	}
	// an encoder that has written a document before writes this one just the same
	againS := "same"
	var two bytes.Buffer
	if e, err := laptimer.NewEncoder(&two); err == nil {
		if err := e.Encode(laptimer.NewDB()); err == nil {
			n := two.Len()
			if err := e.Encode(db); err != nil {
				againS = "err"
			} else if !bytes.Equal(two.Bytes()[n:], enc) {
				againS = "differs"
			}
		}
	}
	return fmt.Sprintf("enc=%s dec=%s enc2=%s gz=%s cp=%s again=%s", hexBytes(enc), decS, enc2S, gzS, cpS, againS)
}

// ltDecodeOp: dec <hex bytes> => ok <dump> | err
func ltDecodeOp(h string) string {
	data, _ := hex.DecodeString(h)
	db, err := ltDecode(data)
	if err != nil {
		return "err"
	}
	return "ok " + dumpField(ltDumpDB(db))
}
