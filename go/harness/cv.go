package main

import (
	"encoding/hex"
	"fmt"
	"math"
	"strconv"
	"strings"
	"time"

	"github.com/stevenh/tracktools/pkg/convert"
	"github.com/stevenh/tracktools/pkg/laptimer"
	"github.com/stevenh/tracktools/pkg/trackaddict"
	"github.com/tidwall/geodesic"
	"gonum.org/v1/gonum/interp"
)

func init() {
	areas["CV"] = &area{gen: genCV, exec: execCV, corpus: corpusCV}
}

// ---- implementation side ---------------------------------------------------------------

func cvField(toks []string, k string) string {
	for _, t := range toks {
		if strings.HasPrefix(t, k+"=") {
			return t[len(k)+1:]
		}
	}
	return ""
}

func unhexStr(s string) string {
	if s == "-" {
		return ""
	}
	b, _ := hex.DecodeString(s)
	return string(b)
}

// cvShifted is a fittable predictor that does not pass through its data points: it predicts
// the first fitted value plus one everywhere (any other "fittable predictor" is allowed by the
// option; fixes with fresh readings must keep their logged values whatever it predicts).
type cvShifted struct{ y0 float64 }

func (p *cvShifted) Fit(xs, ys []float64) error {
	if len(ys) > 0 {
		p.y0 = ys[0]
	}
	return nil
}

func (p *cvShifted) Predict(float64) float64 { return p.y0 + 1 }

func cvOptions(toks []string, withStart bool) []convert.Option {
	var tags []string
	if g := cvField(toks, "G"); g != "-" {
		for _, t := range strings.Split(g, ",") {
			tags = append(tags, unhexStr(t))
		}
	}
	ds, _ := strconv.Atoi(cvField(toks, "DS"))
	pf, _ := strconv.Atoi(cvField(toks, "PF"))
	opts := []convert.Option{
		convert.TrackOpt(unhexStr(cvField(toks, "T"))),
		convert.VehicleOpt(unhexStr(cvField(toks, "V"))),
		convert.TagsOpt(tags...),
		convert.NoteOpt(unhexStr(cvField(toks, "N"))),
		convert.DifferentialOpt(laptimer.DifferentialStatus(ds)),
		convert.PositionOpt(laptimer.PositionFixing(pf)),
	}
	switch cvField(toks, "PR") {
	case "pl":
		opts = append(opts, convert.PredictorOpt(&interp.PiecewiseLinear{}))
	case "pc":
		opts = append(opts, convert.PredictorOpt(&interp.PiecewiseConstant{}))
	case "px":
		opts = append(opts, convert.PredictorOpt(&cvShifted{}))
	case "nil":
		opts = append(opts, convert.PredictorOpt(nil))
	}
	if sd := cvField(toks, "SD"); sd != "-" && withStart {
		sec, _ := strconv.ParseInt(sd, 10, 64)
		d := time.Unix(sec, 0).UTC()
		if sl := cvField(toks, "SL"); sl != "" && sl != "-" {
			// the same instant carried in another location
			off, _ := strconv.Atoi(sl)
			d = d.In(time.FixedZone("sl", off))
		}
		opts = append(opts, convert.StartDateOpt(d))
	}
	return opts
}

func dumpTimeT(t time.Time) string {
	if t.IsZero() {
		return "z"
	}
	return fmt.Sprintf("%d:%d", t.Unix(), t.Nanosecond())
}

func optF1(p *laptimer.Float1dp) string {
	if p == nil {
		return "-"
	}
	return hexFloat(float64(*p))
}

func optF2(p *laptimer.Float2dp) string {
	if p == nil {
		return "-"
	}
	return hexFloat(float64(*p))
}

func optF0(p *laptimer.Float0dp) string {
	if p == nil {
		return "-"
	}
	return hexFloat(float64(*p))
}

func dumpFix(f *laptimer.Fix) string {
	accel := "-"
	if a := f.Acceleration; a != nil {
		accel = strings.Join([]string{hexFloat(float64(a.Lateral)), hexFloat(float64(a.Lineal)), hexFloat(a.Coordinate.Longitude), hexFloat(a.Coordinate.Latitude)}, ":")
	}
	obd := "-"
	if o := f.OBD; o != nil {
		rpm := "-"
		if o.EngineRPM != nil {
			rpm = fmt.Sprint(*o.EngineRPM)
		}
		obd = strings.Join([]string{rpm, optF2(o.ManifoldAbsolutePressure), optF1(o.VehicleSpeed), optF2(o.Throttle), optF1(o.CoolantTemp), optF0(o.IntakeAirTemperature)}, ":")
	}
	interpd := 0
	_ = interpd
	return strings.Join([]string{
		fmt.Sprint(f.ID), dumpTimeT(time.Time(f.Date)), hexFloat(f.Coordinate.Longitude), hexFloat(f.Coordinate.Latitude), hexFloat(f.Coordinate.Altitude),
		hexFloat(float64(f.Speed)), fmt.Sprint(int(f.Positioning.DifferentialStatus)), fmt.Sprint(int(f.Positioning.PositionFixing)),
		fmt.Sprint(f.Satellites), hexFloat(float64(f.Direction)), hexFloat(float64(f.Hdop)), hexFloat(float64(f.Accuracy)),
		hexFloat(f.RelativeToStart.Distance), fmt.Sprint(int64(f.RelativeToStart.Offset)), accel, obd,
	}, ",")
}

func dumpDB(db *laptimer.DB) string {
	var b strings.Builder
	fmt.Fprintf(&b, "ok L=%d", len(db.Laps))
	for i := range db.Laps {
		l := &db.Laps[i]
		tags := "-"
		if len(l.Tags) > 0 {
			ts := make([]string, len(l.Tags))
			for j, t := range l.Tags {
				ts[j] = hexStr(t)
			}
			tags = strings.Join(ts, ",")
		}
		fmt.Fprintf(&b, " [%d %s %d %s %s %s %s %s %d", l.ID, dumpTimeT(time.Time(l.Date)), int64(l.LapTime),
			hexStr(l.Vehicle), hexStr(l.Track), hexStr(l.Note), tags, hexFloat(float64(l.OverallDistance)), len(l.Recording.Fixes))
		for j := range l.Recording.Fixes {
			b.WriteString(" (" + dumpFix(&l.Recording.Fixes[j]) + ")")
		}
		b.WriteString("]")
	}
	return b.String()
}

// cvDecoy is another session (other vehicle, other day, OBD readings): what a converter or a
// session went through before must not show in the conversion under test.
const cvDecoy = "# Vehicle: Decoy Car\n" +
	"Time,UTC Time,Lap,GPS_Update,Latitude,Longitude,Altitude (m),Speed (Km/h),Heading,Accuracy (m),OBD_Update,Engine Speed (RPM) *OBD\n" +
	"0.100,1000000000.100,0,1,10.0000000,20.0000000,1.0,50.0,10.0,3.0,1,1000\n" +
	"# Lap 0: 00:00:01.000\n" +
	"0.200,1000000001.200,1,1,10.0001000,20.0000000,1.0,50.0,10.0,3.0,1,2000\n" +
	"0.700,1000000001.700,1,1,10.0002000,20.0000000,1.0,50.0,10.0,3.0,0,2000\n" +
	"1.200,1000000002.200,1,1,10.0003000,20.0000000,1.0,50.0,10.0,3.0,1,3000\n" +
	"# Lap 1: 00:00:02.000\n" +
	"0.300,1000000003.300,2,1,10.0004000,20.0000000,1.0,50.0,10.0,3.0,1,4000\n" +
	"# Lap 2: 00:00:03.000\n" +
	"0.400,1000000004.400,3,1,10.0005000,20.0000000,1.0,50.0,10.0,3.0,1,5000\n"

func cvConvert(toks []string, withStart bool, shared *trackaddict.Session) (string, *trackaddict.Session) {
	var out string
	// the decoder builds instants with time.Unix, i.e. in the process's local zone: vary it
	if z := cvField(toks, "Z"); z != "" && z != "0" {
		off, _ := strconv.Atoi(z)
		old := time.Local
		time.Local = time.FixedZone("verif", off)
		if z == "L" {
			// a zone with daylight saving changes (the shift is an amount of time, not of calendar days)
			if l, err := time.LoadLocation("Europe/London"); err == nil {
				time.Local = l
			}
		}
		defer func() { time.Local = old }()
	}
	sess := shared
	cls, _ := classify(func() error {
		if sess == nil {
			var c string
			c, sess = taDecode([]byte(unhexStr(cvField(toks, "X"))))
			if c == "panic" {
				panic("decode")
			}
			if c != "ok" {
				return fmt.Errorf("decode")
			}
		}
		conv, err := convert.NewTrackAddict(cvOptions(toks, withStart)...)
		if err != nil {
			return err
		}
		switch cvField(toks, "W") {
		case "1": // the converter has converted another session before
			if c, decoy := taDecode([]byte(cvDecoy)); c == "ok" {
				quietly(func() { conv.LapTimer(decoy) }) //nolint: errcheck
			}
		case "2": // the session has been converted before, with the same options but for the start date
			// (interpolation fills the session's OBD values in place, by design: the predictor is the same)
			other, err := convert.NewTrackAddict(cvOptions(toks, !withStart)...)
			if err == nil {
				quietly(func() { other.LapTimer(sess) }) //nolint: errcheck
			}
		}
		if cvField(toks, "W") == "3" && cvField(toks, "PR") != "nil" {
			// the session has been converted before with ANOTHER predictor: the values it left in the
			// rows without fresh readings are recomputed from the fresh ones, which nothing touches
			other, err := convert.NewTrackAddict(convert.PredictorOpt(&interp.PiecewiseConstant{}))
			if cvField(toks, "PR") == "pc" {
				other, err = convert.NewTrackAddict(convert.PredictorOpt(&interp.PiecewiseLinear{}))
			}
			if err == nil {
				// (gonum's own predictors panic on readings that share a timestamp, as documented: what
				// happens in the earlier conversion is not what is judged here)
				quietly(func() { other.LapTimer(sess) }) //nolint: errcheck
			}
		}
		db, err := conv.LapTimer(sess)
		if err != nil {
			return err
		}
		out = dumpDB(db)
		return nil
	})
	if cls != "ok" {
		return cls, sess
	}
	return out, sess
}

// cvTrueDistance converts a minimal session whose timed lap has two fixes, at the two positions
// given (as they stand in the log, seven decimals), and compares the distance the conversion
// accumulates between them with an independent estimate: the great-circle angle between the two
// positions from 3-D unit vectors, times a radius of curvature of the ellipsoid — every radius of
// curvature of WGS-84 lies between 6335.4 km (meridian at the equator) and 6399.6 km (pole), so the
// true geodesic length lies between the angle times those, with half a percent to spare. The
// oracle table of the conversion cases comes from the geodesic library itself and cannot see an
// error of that library; this case can.
func cvTrueDistance(toks []string) string {
	la, lo, lb, lp := toks[1], toks[2], toks[3], toks[4]
	text := "Time,UTC Time,Lap,GPS_Update,Latitude,Longitude\n" +
		"0.000,1000000000.000,0,1," + la + "," + lo + "\n# Lap 0: 00:00:01.000\n" +
		"1.000,1000000001.000,1,1," + la + "," + lo + "\n2.000,1000000002.000,1,1," + lb + "," + lp + "\n# Lap 1: 00:00:02.000\n" +
		"3.000,1000000003.000,2,1," + lb + "," + lp + "\n"
	var got float64
	cls, _ := classify(func() error {
		d, err := trackaddict.NewDecoder(strings.NewReader(text))
		if err != nil {
			return err
		}
		sess, err := d.Decode()
		if err != nil {
			return err
		}
		conv, err := convert.NewTrackAddict()
		if err != nil {
			return err
		}
		db, err := conv.LapTimer(sess)
		if err != nil {
			return err
		}
		if len(db.Laps) != 1 || len(db.Laps[0].Recording.Fixes) != 2 {
			return fmt.Errorf("shape")
		}
		got = float64(db.Laps[0].Recording.Fixes[1].RelativeToStart.Distance)
		return nil
	})
	if cls != "ok" {
		return cls
	}
	f := func(x string) float64 { v, _ := strconv.ParseFloat(x, 64); return v }
	ang := gcDistLL(f(la), f(lo), f(lb), f(lp))
	special := ""
	if math.Abs(f(la)) == 45 || math.Abs(f(lb)) == 45 {
		special = " lat45=1"
	}
	if !(got >= ang*6335439*0.995-0.001 && got <= ang*6399594*1.005+0.001) {
		return fmt.Sprintf("diff got=%.3f est=%.3f%s", got, ang*6371008.8, special)
	}
	return "ok" + special
}

// quietly runs f and swallows a panic: for conversions that only set the scene.
func quietly(f func()) {
	defer func() { recover() }() //nolint: errcheck
	f()
}

func execCV(_ *config, op string) string {
	toks := strings.Fields(op)
	switch toks[0] {
	case "conv":
		out, _ := cvConvert(toks, true, nil)
		return out
	case "pred":
		return cvPredict(toks)
	case "dist":
		return cvTrueDistance(toks)
	case "shift":
		with, sess := cvConvert(toks, true, nil)
		if cvField(toks, "S") != "1" {
			sess = nil // S=1: the very same decoded session is converted again, without the start date
		}
		without, _ := cvConvert(toks, false, sess)
		return with + " || " + without
	}
	return "bad"
}

// cvPredict checks Session.PredictOBD with gonum's other fittable predictors, whose mathematics
// is not modelled: every channel of every row that has a GPS update, no fresh reading and lies
// between two fresh readings must carry what a predictor of that type, fitted to that channel's
// fresh readings alone, says at the row's time (oracle: a fresh predictor per channel, here).
func cvPredict(toks []string) string {
	mk := func() interp.FittablePredictor {
		switch cvField(toks, "PR") {
		case "ak":
			return &interp.AkimaSpline{}
		case "fb":
			return &interp.FritschButland{}
		case "nc":
			return &interp.NaturalCubic{}
		case "cc":
			return &interp.ClampedCubic{}
		case "nk":
			return &interp.NotAKnotCubic{}
		case "pc":
			return &interp.PiecewiseConstant{}
		}
		return &interp.PiecewiseLinear{}
	}
	c, sess := taDecode([]byte(unhexStr(cvField(toks, "X"))))
	if c != "ok" {
		return "skip decode"
	}
	chans := []func(*trackaddict.OBD) *float64{
		func(o *trackaddict.OBD) *float64 { return o.Speed }, func(o *trackaddict.OBD) *float64 { return o.EngineSpeed },
		func(o *trackaddict.OBD) *float64 { return o.Throttle }, func(o *trackaddict.OBD) *float64 { return o.CoolantTemp },
		func(o *trackaddict.OBD) *float64 { return o.IntakeTemp }, func(o *trackaddict.OBD) *float64 { return o.ManifoldPressure },
	}
	type want struct {
		lap, row, ch int
		x            float64
	}
	var (
		xs     []float64
		ys     = make([][]float64, len(chans))
		wants  []want
		start  time.Time
		logged = map[[3]int]float64{}
	)
	for li, l := range sess.Laps {
		for ri := range l.Records {
			r := &l.Records[ri]
			if r.OBD == nil {
				continue
			}
			for ci, get := range chans {
				if p := get(r.OBD); p != nil {
					logged[[3]int{li, ri, ci}] = *p
				}
			}
			switch {
			case r.OBD.Update:
				if start.IsZero() {
					start = r.Time
				}
				xs = append(xs, r.Time.Sub(start).Seconds())
				for ci, get := range chans {
					if p := get(r.OBD); p != nil {
						ys[ci] = append(ys[ci], *p)
					}
				}
			case r.GPS.Update && !start.IsZero():
				for ci := range chans {
					wants = append(wants, want{li, ri, ci, r.Time.Sub(start).Seconds()})
				}
			}
		}
	}
	for i := 1; i < len(xs); i++ {
		if xs[i] <= xs[i-1] {
			return "skip not-increasing" // gonum's Fit panics, as documented
		}
	}
	if len(xs) < 2 {
		return "skip readings"
	}
	fitted := make([]interp.FittablePredictor, len(chans))
	for ci := range chans {
		if len(ys[ci]) != len(xs) {
			continue // channel not in the log
		}
		fitted[ci] = mk()
		if cls, _ := classify(func() error { return fitted[ci].Fit(xs, ys[ci]) }); cls != "ok" {
			return "skip fit-" + cls
		}
	}
	cls, _ := classify(func() error { return sess.PredictOBD(mk()) })
	if cls != "ok" {
		return "diff predict=" + cls
	}
	n := 0
	for _, w := range wants {
		if fitted[w.ch] == nil || w.x <= xs[0] || w.x >= xs[len(xs)-1] {
			continue
		}
		p := chans[w.ch](sess.Laps[w.lap].Records[w.row].OBD)
		exp := fitted[w.ch].Predict(w.x)
		if p == nil || math.Float64bits(*p) != math.Float64bits(exp) {
			got := "nil"
			if p != nil {
				got = hexFloat(*p)
			}
			return fmt.Sprintf("diff lap=%d row=%d ch=%d got=%s want=%s", w.lap, w.row, w.ch, got, hexFloat(exp))
		}
		n++
	}
	// rows with fresh readings keep exactly what was logged
	for li, l := range sess.Laps {
		for ri := range l.Records {
			r := &l.Records[ri]
			if r.OBD == nil || !r.OBD.Update {
				continue
			}
			for ci, get := range chans {
				if p := get(r.OBD); p != nil && math.Float64bits(*p) != math.Float64bits(logged[[3]int{li, ri, ci}]) {
					return fmt.Sprintf("diff fresh lap=%d row=%d ch=%d", li, ri, ci)
				}
			}
		}
	}
	return fmt.Sprintf("ok n=%d", n)
}

// ---- generators --------------------------------------------------------------------------

type cvPos struct{ lat, lon string }

var cvPalette = []cvPos{
	{"50.8590633", "-0.7529619"}, {"50.8590192", "-0.7529567"}, {"50.8589770", "-0.7529510"},
	{"50.8601000", "-0.7510000"}, {"-33.9000000", "151.2000000"}, {"0.0000000", "0.0000000"},
	{"50.8590633", "-0.7529000"}, {"64.1000000", "-21.9000000"},
}

// cvLog builds a session log: laps of rows with arbitrary GPS-update / OBD-update patterns.
func cvLog(r *rng, s *sink, maxLaps, maxRows int, withOBD bool, baseSec int64) (text string, oracle string) {
	nl := r.intn(maxLaps + 1)
	hdr := []string{"Time", "UTC Time", "Lap", "GPS_Update", "Latitude", "Longitude", "Altitude (m)", "Speed (Km/h)", "Heading", "Accuracy (m)"}
	accel := r.chance(1, 2)
	if accel {
		hdr = append(hdr, "Accel X", "Accel Y", "Accel Z")
	}
	// columns that conversion must carry through or ignore without changing anything else
	delay := r.chance(1, 4)
	if delay {
		hdr = append(hdr, "GPS_Delay")
	}
	nch := 0
	if withOBD {
		hdr = append(hdr, "OBD_Update")
		all := []string{"Engine Speed (RPM) *OBD", "Vehicle Speed (km/h) *OBD", "Throttle Position (%) *OBD", "Engine Coolant Temp (C) *OBD", "Intake Air Temp (C) *OBD", "Intake Manifold Pressure (kPa) *OBD"}
		for _, c := range all {
			if r.chance(3, 4) {
				hdr = append(hdr, c)
				nch++
			}
		}
	}
	noTime := r.chance(1, 30)
	if noTime {
		hdr = append(hdr[:1], hdr[2:]...)
	}
	var b strings.Builder
	b.WriteString("# Vehicle: " + pick(r, []string{"2019 McLaren 720S", "", "Car & <Co> \"q\""}) + "\n")
	b.WriteString(strings.Join(hdr, ",") + "\n")
	ms := int64(r.intn(1000))
	sec := baseSec
	pal := cvPalette[:2+r.intn(len(cvPalette)-1)]
	usedPos := map[cvPos]bool{}
	freshSeen := false
	drift := r.chance(1, 3)
	if drift {
		s.count("cv.clock_drift")
	}
	obdVals := make([]string, nch)
	for i := range obdVals {
		obdVals[i] = taFloat(r)
	}
	fresh, needed := 0, 0
	// lap numbers: TrackAddict counts from 0, other writers of the format count from 1, and a lap
	// deleted in the app leaves a gap; the decoder accepts any numbers that do not go down
	lapNo := 0
	if r.chance(1, 6) {
		lapNo = 1 + r.intn(2)
		s.count("cv.laps_from_" + fmt.Sprint(lapNo))
	}
	for li := 0; li < nl; li++ {
		if li > 0 {
			lapNo++
			if r.chance(1, 14) {
				lapNo += 1 + r.intn(2)
				s.count("cv.lap_number_gap")
			}
		}
		rows := r.intn(maxRows + 1)
		now := int64(0)
		for j := 0; j < rows; j++ {
			step := int64(10 + r.intn(990))
			if r.chance(1, 150) {
				step = 0 // two rows in the same millisecond
			}
			now += step
			ms += step
			if drift {
				// the wall clock does not tick in step with the logger's own clock: it drifts by a few
				// milliseconds per row and is stepped now and then
				ms += int64(r.intn(7))
				if r.chance(1, 10) {
					ms += int64(pick(r, []int{300, 1000, 45}))
				}
			}
			sec += ms / 1000
			ms %= 1000
			gu := r.chance(2, 5)
			p := pick(r, pal)
			usedPos[p] = true
			vals := []string{fmt.Sprintf("%d.%03d", now/1000, now%1000)}
			if !noTime {
				vals = append(vals, fmt.Sprintf("%d.%03d", sec, ms))
			}
			vals = append(vals, fmt.Sprint(lapNo), b01(gu), p.lat, p.lon, taFloat(r), taFloat(r), taFloat(r), taFloat(r))
			if accel {
				if r.chance(1, 5) {
					// a legitimate sample that reads exactly zero on every axis
					vals = append(vals, "0.00", "0.00", "0.00")
				} else {
					vals = append(vals, taFloat(r), taFloat(r), taFloat(r))
				}
			}
			if delay {
				vals = append(vals, pick(r, []string{"0.000", "0.000", "0.500", "0.120", "1.250", "2.000"}))
			}
			if withOBD {
				ou := r.chance(1, 4) || (!freshSeen && r.chance(9, 10))
				if ou {
					freshSeen = true
					fresh++
					for i := range obdVals {
						obdVals[i] = taFloat(r)
						if r.chance(1, 10) {
							obdVals[i] = pick(r, []string{"0", "0.0", "-0.0"})
						}
					}
					if r.chance(1, 12) {
						// a fresh reading in which every channel reads zero (engine off, car halted) is a reading
						for i := range obdVals {
							obdVals[i] = pick(r, []string{"0", "0.0", "0.000"})
						}
						s.count("cv.obd.all_zero")
					}
				} else if gu {
					needed++
				}
				vals = append(vals, b01(ou))
				vals = append(vals, obdVals...)
			}
			b.WriteString(strings.Join(vals, ",") + "\n")
		}
		if li < nl-1 || r.chance(1, 2) {
			fmt.Fprintf(&b, "# Lap %d: %02d:%02d:%02d.%03d\n", lapNo, 0, r.intn(60), r.intn(60), r.intn(1000))
		}
	}
	// oracle: real WGS-84 inverse for every ordered pair of positions used
	var ents []string
	var ps []cvPos
	for p := range usedPos {
		ps = append(ps, p)
	}
	for _, a := range ps {
		for _, c := range ps {
			la, _ := strconv.ParseFloat(a.lat, 64)
			lo, _ := strconv.ParseFloat(a.lon, 64)
			lb, _ := strconv.ParseFloat(c.lat, 64)
			lp, _ := strconv.ParseFloat(c.lon, 64)
			var d float64
			geodesic.WGS84.Inverse(la, lo, lb, lp, &d, nil, nil)
			ents = append(ents, strings.Join([]string{hexFloat(la), hexFloat(lo), hexFloat(lb), hexFloat(lp), hexFloat(d)}, ","))
		}
	}
	oracle = "-"
	if len(ents) > 0 {
		oracle = strings.Join(ents, ";")
	}
	s.count("cv.laps." + bucket(nl))
	s.count("cv.fresh." + bucket(fresh))
	s.count("cv.needed." + bucket(needed))
	return b.String(), oracle
}

func hexTags(r *rng) string {
	n := r.intn(3)
	if n == 0 {
		return "-"
	}
	ts := make([]string, n)
	for i := range ts {
		ts[i] = hexStr(pick(r, []string{"Me", "wet", "Goodwood 2022", "a&b"}))
	}
	return strings.Join(ts, ",")
}

func genCV(cfg *config, r *rng, i int, s *sink) string {
	maxLaps := 2 + i/40
	if maxLaps > 7 {
		maxLaps = 7
	}
	maxRows := 3 + i/30
	if maxRows > 25 {
		maxRows = 25
	}
	withOBD := r.chance(3, 4)
	pr := pick(r, []string{"pl", "pl", "pl", "pc", "px", "nil", "def"})
	if cfg.prop == "C03" || cfg.prop == "C12" {
		pr = pick(r, []string{"nil", "nil", "pl", "def"})
	}
	// sessions start shortly before a UTC midnight one time in three
	base := int64(1653983971)
	if r.chance(1, 3) {
		base = 1654041600 - int64(r.intn(20))
	}
	if r.chance(1, 6) {
		base = int64(r.rangeInt(0, 2000000000))
	}
	if r.chance(1, 10) {
		// a log recorded before the epoch (negative UTC times are times like any other), some of
		// them shortly before a UTC midnight
		base = -int64(r.rangeInt(100000, 30000000))
		if r.chance(1, 2) {
			base = base - (base % 86400) - int64(1+r.intn(20)) // ... -00:00:20 .. -00:00:01 before a midnight
		}
	}
	if (cfg.prop == "C03" || cfg.prop == "") && r.chance(1, 12) {
		// two positions a metre to a few kilometres apart, anywhere; one time in five one of them lies
		// on the 45th parallel to the last printed digit (recorded finding: the geodesic library)
		lat := (r.float01()*2 - 1) * 80
		lon := (r.float01()*2 - 1) * 179
		if r.chance(1, 5) {
			lat = pick(r, []float64{45, -45})
			s.count("cv.dist.lat45")
		}
		d := math.Pow(10, r.float01()*3.7)
		lat2, lon2 := offsetPoint(lat, lon, r.float01()*360, d, 6371008.8)
		a, b2, c, d2 := fmt.Sprintf("%.7f", lat), fmt.Sprintf("%.7f", lon), fmt.Sprintf("%.7f", lat2), fmt.Sprintf("%.7f", lon2)
		if r.bool() {
			a, b2, c, d2 = c, d2, a, b2
		}
		s.count("cv.op.dist")
		return fmt.Sprintf("dist %s %s %s %s", a, b2, c, d2)
	}
	if (cfg.prop == "C11" || cfg.prop == "") && r.chance(1, 6) {
		text, _ := cvLog(r, s, maxLaps, maxRows+6, true, base)
		pk := pick(r, []string{"ak", "fb", "nc", "cc", "nk", "pl", "pc"})
		s.count("cv.op.pred." + pk)
		return fmt.Sprintf("pred PR=%s X=%s", pk, hexStr(text))
	}
	dst := r.chance(1, 10)
	if dst {
		// a session on the eve of a clock change in Europe/London (27 March, 30 October 2022)
		base = pick(r, []int64{1648288800, 1648328400, 1667080800, 1667084400}) + int64(r.intn(3000))
		s.count("cv.dst")
	}
	text, oracle := cvLog(r, s, maxLaps, maxRows, withOBD, base)
	sd := "-"
	op := "conv"
	if cfg.prop == "C12" || (cfg.prop == "" && r.chance(1, 3)) {
		op = "shift"
		switch r.intn(5) {
		case 4: // the epoch day and days before it are start dates like any other
			sd = fmt.Sprint(pick(r, []int64{0, 0, -86400, -14256000, -31536000, -86400 * 3000}))
		case 0: // the logged day itself
			sd = fmt.Sprint(base - base%86400)
		case 1: // day after
			sd = fmt.Sprint(base - base%86400 + 86400)
		default:
			sd = fmt.Sprint(int64(r.rangeInt(0, 40000)) * 86400)
		}
	} else if r.chance(1, 5) {
		sd = fmt.Sprint(int64(r.rangeInt(0, 40000)) * 86400)
	}
	if sd != "-" && r.chance(1, 6) {
		// a start date is an instant: it may carry a time of day
		v, _ := strconv.ParseInt(sd, 10, 64)
		sd = fmt.Sprint(v + int64(pick(r, []int{1, 3600, 43200, 86399, 7 * 3600})))
	}
	sl := "-"
	if sd != "-" && r.chance(1, 4) {
		sl = fmt.Sprint(pick(r, []int{7200, -14400, 19800, 50400, -43200}))
	}
	warm := pick(r, []int{0, 0, 0, 1, 1, 2, 3})
	share := b01(r.chance(1, 3))
	s.count(fmt.Sprintf("cv.warm.%d", warm))
	s.count("cv.op." + op)
	s.count("cv.pred." + pr)
	zone := fmt.Sprint(pick(r, []int{0, 0, 7200, -28800, 19800, 50400, -43200, 3600}))
	if dst {
		zone = "L"
		if sd != "-" {
			sd = fmt.Sprint(base - base%86400 + 86400*int64(pick(r, []int{1, 2, 3})))
		}
	}
	s.count("cv.zone." + zone)
	return fmt.Sprintf("%s Z=%s W=%d S=%s SL=%s T=%s V=%s G=%s N=%s DS=%d PF=%d SD=%s PR=%s O=%s X=%s", op, zone, warm, share, sl,
		hexStr(pick(r, []string{"Goodwood", "", "Brands <Hatch>"})), hexStr(pick(r, []string{"", "", "'19 McLaren 720s"})),
		hexTags(r), hexStr(pick(r, []string{"", "a note", "line1\nline2"})), r.intn(4), r.intn(5), sd, pr, oracle, hexStr(text))
}

func corpusCV(cfg *config) []string {
	mk := func(op, sd, pr, text string) string {
		return fmt.Sprintf("%s T=%s V=- G=- N=- DS=0 PF=2 SD=%s PR=%s O=%s X=%s", op, hexStr("T"), sd, pr, strings.Repeat("0000000000000000,", 4)+"0000000000000000", hexStr(text))
	}
	// a long session: more than a thousand fresh readings on three channels, with a GPS-only row after
	// each of them in the timed lap (every reading of every channel takes part in the fit)
	var long strings.Builder
	long.WriteString("Time,UTC Time,Lap,GPS_Update,Latitude,Longitude,OBD_Update,Engine Speed (RPM) *OBD,Throttle Position (%) *OBD,Engine Coolant Temp (C) *OBD\n")
	long.WriteString("0.000,1000000000.000,0,1,0.0000000,0.0000000,1,900,0.5,55\n# Lap 0: 00:00:01.000\n")
	for i := 0; i < 1150; i++ {
		fmt.Fprintf(&long, "%d.000,%d.000,1,0,0.0000000,0.0000000,1,%d,%d.5,%d\n", 1+2*i, 1000000001+2*i, 1000+3*i, i%100, 60+i%40)
		fmt.Fprintf(&long, "%d.000,%d.000,1,1,0.0000000,0.0000000,0,%d,%d.5,%d\n", 2+2*i, 1000000002+2*i, 1000+3*i, i%100, 60+i%40)
	}
	long.WriteString("# Lap 1: 00:38:20.000\n2302.000,1000002302.000,2,1,0.0000000,0.0000000,0,0,0,0\n")
	return []string{
		mk("conv", "-", "def", long.String()),
		// no OBD columns at all (used to crash in OBD.set)
		mk("conv", "-", "def", "Time,UTC Time,GPS_Update\n0.000,100.000,1\n# Lap 0: 00:00:01.000\n1.000,101.000,1\n# Lap 1: 00:00:01.000\n2.000,102.000,1\n"),
		// OBD columns that never report an update
		mk("conv", "-", "def", "Time,UTC Time,GPS_Update,OBD_Update,Engine Speed (RPM) *OBD\n0.000,100.000,1,0,1000\n# Lap 0: 00:00:01.000\n1.000,101.000,1,0,1000\n# Lap 1: 00:00:01.000\n2.000,102.000,1,0,1000\n"),
		// interpolation between two fresh readings
		mk("conv", "-", "def", "Time,UTC Time,GPS_Update,OBD_Update,Engine Speed (RPM) *OBD\n0.000,100.000,1,1,1000\n# Lap 0: 00:00:01.000\n1.000,101.000,1,0,1000\n1.500,101.500,1,0,1000\n# Lap 1: 00:00:01.000\n2.000,102.000,1,1,5000\n"),
		// a fresh reading whose channels all read zero, between two others (the car halted, throttle closed)
		mk("conv", "-", "def", "Time,UTC Time,Lap,GPS_Update,Latitude,Longitude,OBD_Update,Vehicle Speed (km/h) *OBD,Throttle Position (%) *OBD\n"+
			"0.000,100.000,0,1,0.0000000,0.0000000,1,50,20\n# Lap 0: 00:00:01.000\n1.000,101.000,1,1,0.0000000,0.0000000,1,60,30\n2.000,102.000,1,1,0.0000000,0.0000000,0,60,30\n"+
			"3.000,103.000,1,1,0.0000000,0.0000000,1,0,0\n4.000,104.000,1,1,0.0000000,0.0000000,0,0,0\n5.000,105.000,1,1,0.0000000,0.0000000,1,40,50\n# Lap 1: 00:00:05.000\n6.000,106.000,2,1,0.0000000,0.0000000,1,40,50\n"),
		// a log with OBD channels, but none of rpm / speed / throttle / coolant: intake temperature and manifold pressure only
		mk("conv", "-", "def", "Time,UTC Time,Lap,GPS_Update,Latitude,Longitude,OBD_Update,Intake Air Temp (C) *OBD,Intake Manifold Pressure (kPa) *OBD\n"+
			"0.000,100.000,0,1,0.0000000,0.0000000,1,30.1,101.000\n# Lap 0: 00:00:01.000\n1.000,101.000,1,1,0.0000000,0.0000000,1,32.6,150.504\n2.000,102.000,1,1,0.0000000,0.0000000,1,33.4,149.250\n# Lap 1: 00:00:02.000\n3.000,103.000,2,1,0.0000000,0.0000000,1,31.0,120.000\n"),
		// recorded finding: a fix on the 45th parallel to the last printed digit (the geodesic library)
		"dist 44.9999000 7.0000000 45.0000000 7.0001000",
		"dist 45.0000000 7.0000000 45.0000000 7.0001000",
		"dist 44.9999000 7.0000000 45.0000001 7.0001000",
		// laps counted from 1, and laps with a number missing (a lap deleted in the app)
		mk("conv", "-", "def", "Time,UTC Time,GPS_Update\n0.000,100.000,1\n# Lap 1: 00:00:01.000\n1.000,101.000,1\n# Lap 2: 00:00:01.000\n2.000,102.000,1\n# Lap 3: 00:00:01.000\n3.000,103.000,1\n"),
		mk("conv", "-", "def", "Time,UTC Time,GPS_Update\n0.000,100.000,1\n# Lap 0: 00:00:01.000\n1.000,101.000,1\n# Lap 1: 00:00:01.000\n2.000,102.000,1\n# Lap 3: 00:00:01.000\n3.000,103.000,1\n# Lap 4: 00:00:01.000\n4.000,104.000,1\n"),
		// the first converted row logged at exactly 00:00:00.000 UTC, start dates later and earlier than the logged day
		mk("shift", "1654819200", "nil", "Time,UTC Time,GPS_Update\n0.000,1654041540.000,1\n# Lap 0: 00:01:00.000\n60.000,1654041600.000,1\n61.000,1654041601.000,1\n# Lap 1: 00:00:02.000\n62.000,1654041602.000,1\n"),
		mk("shift", "1653868800", "nil", "Time,UTC Time,GPS_Update\n0.000,1654041540.000,1\n# Lap 0: 00:01:00.000\n60.000,1654041600.000,1\n61.000,1654041601.000,1\n# Lap 1: 00:00:02.000\n62.000,1654041602.000,1\n"),
		// start date equal to the logged day, session running past UTC midnight
		mk("shift", "1653955200", "nil", "Time,UTC Time,GPS_Update\n0.000,1654041590.000,1\n# Lap 0: 00:00:01.000\n1.000,1654041598.000,1\n# Lap 1: 00:00:05.000\n6.000,1654041603.000,1\n# Lap 2: 00:00:05.000\n11.000,1654041608.000,1\n"),
	}
}
