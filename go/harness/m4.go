package main

import (
	"bytes"
	"encoding/binary"
	"fmt"
	"io"
	"math"
	"os"
	"runtime/debug"
	"strconv"
	"strings"
	"time"

	"github.com/Eyevinn/mp4ff/mp4"
	"github.com/stevenh/tracktools/pkg/gopro/gpmf"
)

func init() {
	areas["M4"] = &area{gen: genM4, exec: execM4, corpus: corpusM4}
}

// ---- byte-level MP4 synthesiser -------------------------------------------------------------

func box(typ string, payload ...[]byte) []byte {
	n := 8
	for _, p := range payload {
		n += len(p)
	}
	b := binary.BigEndian.AppendUint32(nil, uint32(n))
	b = append(b, typ...)
	for _, p := range payload {
		b = append(b, p...)
	}
	return b
}

func u32(vs ...uint32) []byte {
	var b []byte
	for _, v := range vs {
		b = binary.BigEndian.AppendUint32(b, v)
	}
	return b
}

type m4Tables struct {
	ts        uint32
	track     bool // metadata track present
	stsc      [][2]uint32
	stts      [][2]uint32
	sizes     []uint32
	uniform   uint32
	sampleNr  uint32
	co        []uint64
	co64      bool
	noCo      bool
	fastStart bool // moov before mdat ("fast start" files): the payload then runs to the very end of the file
	shifted   bool
	holeAt    int       // a hole (video data nobody points into) of holeLen zero bytes before payload byte holeAt of the mdat box ...
	holeLen   uint64    // ... which only exists virtually: the file is read through a sparse reader (0: no hole)
	gap       string    // "P:G" of the op: file position and length of the hole
	decoy     [2]string // without a metadata track: a track that only looks like one (handler type, name)
	metName   string    // handler name of the metadata track ("" = the camera's "\tGoPro MET")
	spareCo   int       // with stco present: also a co64 box (ignored by the decoder) holding this many fewer entries (0: none)
	extra     int       // 0 none, 1 video track first, 2 other meta track first, 3 both
}

func (t *m4Tables) trak(handler, name string, meta bool) []byte {
	mdhd := box("mdhd", u32(0, 0, 0, t.ts, 0), []byte{0x55, 0xc4, 0, 0})
	hdlr := box("hdlr", u32(0, 0), []byte(handler), u32(0, 0, 0), []byte(name), []byte{0})
	var stbl []byte
	stsd := box("stsd", u32(0, 0))
	if !meta {
		stts := u32(0, 0)
		if t.fastStart {
			// mp4ff takes a first trak without stts entries, met before the mdat box, for a fragmented file
			stts = u32(0, 1, 1, 1)
		}
		stbl = box("stbl", stsd, box("stts", stts), box("stsc", u32(0, 0)), box("stsz", u32(0, 0, 0)), box("stco", u32(0, 0)))
	} else {
		stts := u32(0, uint32(len(t.stts)))
		for _, e := range t.stts {
			stts = append(stts, u32(e[0], e[1])...)
		}
		stsc := u32(0, uint32(len(t.stsc)))
		for _, e := range t.stsc {
			stsc = append(stsc, u32(e[0], e[1], 1)...)
		}
		stsz := u32(0, t.uniform, t.sampleNr)
		if t.uniform == 0 {
			stsz = u32(0, 0, uint32(len(t.sizes)))
			stsz = append(stsz, u32(t.sizes...)...)
		}
		boxes := [][]byte{stsd, box("stts", stts), box("stsc", stsc), box("stsz", stsz)}
		if !t.noCo {
			if t.co64 {
				co := u32(0, uint32(len(t.co)))
				for _, o := range t.co {
					co = binary.BigEndian.AppendUint64(co, o)
				}
				boxes = append(boxes, box("co64", co))
			} else {
				co := u32(0, uint32(len(t.co)))
				for _, o := range t.co {
					co = append(co, u32(uint32(o))...)
				}
				boxes = append(boxes, box("stco", co))
				if t.spareCo > 0 {
					// some muxers leave both tables behind; stco is the one that counts
					n := len(t.co) - t.spareCo
					if n < 0 {
						n = 0
					}
					co2 := u32(0, uint32(n))
					for _, o := range t.co[:n] {
						co2 = binary.BigEndian.AppendUint64(co2, o)
					}
					boxes = append(boxes, box("co64", co2))
				}
			}
		}
		stbl = box("stbl", boxes...)
	}
	minf := box("minf", box("nmhd", u32(0)), box("dinf", box("dref", u32(0, 0))), stbl)
	tkhd := box("tkhd", make([]byte, 84))
	return box("trak", tkhd, box("mdia", mdhd, hdlr, minf))
}

// mdatBox: the media data box declaring `virtual` more bytes than it is given (the hole)
func mdatBox(payload []byte, virtual uint64) []byte {
	n := uint64(8+len(payload)) + virtual
	if n < 1<<32 {
		return append(append(u32(uint32(n)), "mdat"...), payload...)
	}
	b := append(u32(1), "mdat"...)
	b = binary.BigEndian.AppendUint64(b, n+8)
	return append(b, payload...)
}

// file = ftyp, mdat(payload), moov (or ftyp, moov, mdat for fast-start files); returns the file
// as it is held in memory: with a hole, the bytes before and after it, t.gap saying where it is.
func (t *m4Tables) file(payload []byte) []byte {
	ftyp := box("ftyp", []byte("mp41"), u32(0), []byte("mp41"))
	mdat := mdatBox(payload, t.holeLen)
	hdr := len(mdat) - len(payload)
	moovOf := func() []byte {
		var traks [][]byte
		if t.extra&1 != 0 || t.fastStart {
			// (fast start: the video trak comes first, as the camera writes it; mp4ff looks at the first trak's stts)
			traks = append(traks, t.trak("vide", "\tGoPro AVC", false))
		}
		if t.extra&2 != 0 {
			traks = append(traks, t.trak("meta", "\tGoPro TCD", false))
		}
		if t.track {
			name := t.metName
			if name == "" {
				name = "\tGoPro MET"
			}
			traks = append(traks, t.trak("meta", name, true))
		} else if t.decoy[0] != "" {
			traks = append(traks, t.trak(t.decoy[0], t.decoy[1], true))
		}
		if len(traks) == 0 {
			// a moov without any trak is not a valid container (and crashes mp4ff itself)
			traks = append(traks, t.trak("vide", "\tGoPro AVC", false))
		}
		mvhd := box("mvhd", make([]byte, 100))
		return box("moov", append([][]byte{mvhd}, traks...)...)
	}
	if !t.shifted {
		// the chunk offsets were laid out for ftyp + an 8-byte mdat header + payload: move them for a
		// longer header, a moov box in front (its size does not depend on their values) and the hole
		t.shifted = true
		lead := uint64(hdr - 8)
		if t.fastStart {
			lead += uint64(len(moovOf()))
		}
		for i := range t.co {
			if t.holeLen > 0 && t.co[i] >= uint64(m4PayloadBase+t.holeAt) {
				t.co[i] += t.holeLen
			}
			t.co[i] += lead
		}
	}
	moov := moovOf()
	var out []byte
	pos := len(ftyp) + hdr + t.holeAt
	if t.fastStart {
		out = append(append(ftyp, moov...), mdat...)
		pos += len(moov)
	} else {
		out = append(append(ftyp, mdat...), moov...)
	}
	if t.holeLen > 0 {
		t.gap = fmt.Sprintf("%d:%d", pos, t.holeLen)
	}
	return out
}

const m4PayloadBase = 20 + 8 // ftyp box (20 bytes) + mdat header

// ---- op text <-> tables -------------------------------------------------------------------

func m4Op(mode string, t *m4Tables, file []byte) string {
	pairs := func(ps [][2]uint32) string {
		if len(ps) == 0 {
			return "~"
		}
		ss := make([]string, len(ps))
		for i, p := range ps {
			ss[i] = fmt.Sprintf("%d:%d", p[0], p[1])
		}
		return strings.Join(ss, ",")
	}
	sz := "~"
	if t.uniform == 0 && len(t.sizes) > 0 {
		ss := make([]string, len(t.sizes))
		for i, v := range t.sizes {
			ss[i] = fmt.Sprint(v)
		}
		sz = strings.Join(ss, ",")
	}
	co := "none"
	if !t.noCo {
		co = "~"
		if len(t.co) > 0 {
			ss := make([]string, len(t.co))
			for i, v := range t.co {
				if !t.co64 {
					v = uint64(uint32(v))
				}
				ss[i] = fmt.Sprint(v)
			}
			co = strings.Join(ss, ",")
		}
	}
	sn := t.sampleNr
	if t.uniform == 0 {
		sn = uint32(len(t.sizes))
	}
	gap := ""
	if t.gap != "" {
		gap = " gap=" + t.gap
	}
	return fmt.Sprintf("dec %s ts=%d track=%s stsc=%s stts=%s sz=%s uni=%d sn=%d co=%s%s file=%s", mode, t.ts, b01(t.track),
		pairs(t.stsc), pairs(t.stts), sz, t.uniform, sn, co, gap, hexBytes(file))
}

// ---- implementation side ---------------------------------------------------------------

// sparseFile reads as data[:at] ++ hole zero bytes ++ data[at:] without holding the hole.
type sparseFile struct {
	data []byte
	at   int64
	hole int64
	pos  int64
}

func (f *sparseFile) size() int64 { return int64(len(f.data)) + f.hole }

func (f *sparseFile) Read(p []byte) (int, error) {
	if f.pos >= f.size() {
		return 0, io.EOF
	}
	n := int64(len(p))
	if n > f.size()-f.pos {
		n = f.size() - f.pos
	}
	// a buffer of many megabytes is the fresh (zero) buffer the mp4 library reads the whole media
	// data box into: no need to touch every page of the hole
	if n <= 1<<20 {
		clear(p[:n])
	}
	lo, hi := f.pos, f.pos+n
	if lo < f.at {
		e := min(hi, f.at)
		copy(p[:e-lo], f.data[lo:e])
	}
	if hi > f.at+f.hole {
		b := max(lo, f.at+f.hole)
		copy(p[b-lo:hi-lo], f.data[b-f.hole:hi-f.hole])
	}
	f.pos += n
	return int(n), nil
}

func (f *sparseFile) Seek(offset int64, whence int) (int64, error) {
	switch whence {
	case io.SeekCurrent:
		offset += f.pos
	case io.SeekEnd:
		offset += f.size()
	}
	if offset < 0 {
		return 0, fmt.Errorf("negative position")
	}
	f.pos = offset
	return f.pos, nil
}

// m4Reader: the file of the op as the decoder gets it
func m4Reader(toks []string, file []byte) io.ReadSeeker {
	g := cvField(toks, "gap")
	if g == "" {
		if v := caseHash(string(file)) >> 20; v%4 == 1 {
			return &shortSeeker{bytes.NewReader(file), 100} // short reads are legal
		} else if v%4 == 2 {
			return &shortSeeker{bytes.NewReader(file), 7}
		}
		return bytes.NewReader(file)
	}
	p := strings.Split(g, ":")
	at, _ := strconv.ParseInt(p[0], 10, 64)
	hole, _ := strconv.ParseInt(p[1], 10, 64)
	return &sparseFile{data: file, at: at, hole: hole}
}

func durs[T any](n int, get func(i int) time.Duration) string {
	if n == 0 {
		return "~"
	}
	ss := make([]string, n)
	for i := range ss {
		ss[i] = fmt.Sprint(int64(get(i)))
	}
	return strings.Join(ss, ",")
}

func m4Offsets(b *strings.Builder, es []*gpmf.Element) {
	gpmf.Walk(es, func(e *gpmf.Element) error { //nolint: errcheck
		key := hexBytes(e.Header.Key[:])
		switch v := e.Data.(type) {
		case gpmf.GPSData:
			b.WriteString(" " + key + ":" + durs[gpmf.GPS](len(v), func(i int) time.Duration { return v[i].Offset }))
		case gpmf.AccelData:
			b.WriteString(" " + key + ":" + durs[gpmf.Accel](len(v), func(i int) time.Duration { return v[i].Offset }))
		case gpmf.GyroData:
			b.WriteString(" " + key + ":" + durs[gpmf.Gyro](len(v), func(i int) time.Duration { return v[i].Offset }))
		case gpmf.MagnetometerData:
			b.WriteString(" " + key + ":" + durs[gpmf.Magnetometer](len(v), func(i int) time.Duration { return v[i].Offset }))
		case gpmf.WhiteBalanceRGBData:
			b.WriteString(" " + key + ":" + durs[gpmf.WhiteBalanceRGB](len(v), func(i int) time.Duration { return v[i].Offset }))
		}
		return nil
	})
}

// m4Shared: one Decoder used for file after file, as `gopro laptimes a.mp4 b.mp4` does (a decoder
// carries nothing from one file to the next); half of the well-formed cases go through it, the
// others and all damaged files through a decoder of their own.
var m4Shared = gpmf.NewDecoder()

func m4Decode(rs io.ReadSeeker, shared bool) string {
	wait := 30 * time.Second
	if _, sparse := rs.(*sparseFile); sparse {
		// the library reads the whole media data box, hole included, into memory: gigabytes
		wait = 5 * time.Minute
	}
	ch := make(chan string, 1)
	go func() {
		var es []*gpmf.Element
		cls, _ := classify(func() error {
			var err error
			dec := gpmf.NewDecoder()
			if shared {
				dec = m4Shared
			}
			es, err = dec.Decode(rs)
			return err
		})
		if cls != "ok" {
			ch <- cls
			return
		}
		var b strings.Builder
		b.WriteString("ok")
		m4Offsets(&b, es)
		ch <- b.String()
	}()
	if _, sparse := rs.(*sparseFile); sparse {
		// (the library allocates the whole media data box: no memory criterion here)
		select {
		case r := <-ch:
			return r
		case <-time.After(wait):
			return "hang"
		}
	}
	return waitOrRunaway(ch, wait)
}

// m4Echo checks the synthesiser against mp4ff: the tables written are the tables parsed.
func m4Echo(toks []string, file []byte) bool {
	// (lazy mode: the echo has no use for the media data, and a file with a hole is large)
	f, err := mp4.DecodeFile(m4Reader(toks, file), mp4.WithDecodeMode(mp4.DecModeLazyMdat))
	if cvField(toks, "track") != "1" {
		return true
	}
	if err != nil || f.Moov == nil {
		if os.Getenv("VERIF_DEBUG_M4") != "" {
			fmt.Fprintf(os.Stderr, "DEBUG echo: err=%v\n", err)
		}
		return false
	}
	for _, trak := range f.Moov.Traks {
		if trak.Mdia.Hdlr.HandlerType == "meta" && strings.Contains(trak.Mdia.Hdlr.Name, "GoPro MET") {
			st := trak.Mdia.Minf.Stbl
			var sb []string
			for _, e := range st.Stsc.Entries {
				sb = append(sb, fmt.Sprintf("%d:%d", e.FirstChunk, e.SamplesPerChunk))
			}
			var tb []string
			for i := range st.Stts.SampleCount {
				tb = append(tb, fmt.Sprintf("%d:%d", st.Stts.SampleCount[i], st.Stts.SampleTimeDelta[i]))
			}
			return joinOr(",", sb) == cvField(toks, "stsc") && joinOr(",", tb) == cvField(toks, "stts") &&
				fmt.Sprint(trak.Mdia.Mdhd.Timescale) == cvField(toks, "ts")
		}
	}
	return false
}

func execM4(_ *config, op string) string {
	toks := strings.Fields(op)
	if toks[0] != "dec" {
		return "bad"
	}
	file := []byte(unhexStr(cvField(toks, "file")))
	if !m4Echo(toks, file) {
		return "synth-mismatch"
	}
	if cvField(toks, "gap") != "" {
		// give the gigabytes back before the next case asks for its own
		defer debug.FreeOSMemory()
	}
	return m4Decode(m4Reader(toks, file), toks[1] == "wf" && caseHash(op)&2 == 0)
}

// ---- generators --------------------------------------------------------------------------

// m4Sample builds one GPMF payload with known numbers of GPS / ACCL readings.
func m4Sample(r *rng) []byte {
	var kids [][]byte
	ng := r.intn(5)
	kids = append(kids, klv("SCAL", 'l', 4, 5, beInts(4, 10000000, 10000000, 1000, 1000, 100)))
	kids = append(kids, klv("GPS5", 'l', 20, ng, gmValueBytes(r, 20*ng)))
	st1 := nest("STRM", kids...)
	na := r.intn(7)
	st2 := nest("STRM", klv("SCAL", 's', 2, 1, beInts(2, 418)), klv("ACCL", 's', 6, na, gmValueBytes(r, 6*na)))
	dev := [][]byte{klv("DVID", 'L', 4, 1, beInts(4, 1)), st1}
	if r.chance(2, 3) {
		dev = append(dev, st2)
	}
	if r.chance(1, 4) {
		dev = append(dev, nest("STRM", klv("MAGN", 's', 6, 2, gmValueBytes(r, 12))))
	}
	// every kind of sensor reading gets its offsets: gyroscope and white balance too
	if r.chance(1, 2) {
		ny := r.intn(6)
		dev = append(dev, nest("STRM", klv("SCAL", 's', 2, 1, beInts(2, 3755)), klv("GYRO", 's', 6, ny, gmValueBytes(r, 6*ny))))
	}
	if r.chance(1, 4) {
		nw := 1 + r.intn(3)
		dev = append(dev, nest("STRM", klv("WRGB", 'f', 12, nw, bytes.Repeat(beInts(4, int64(math.Float32bits(1.5))), 3*nw))))
	}
	return nest("DEVC", dev...)
}

// m4Valid builds a consistent layout: N samples composed into chunks, with minimal or redundant
// stsc runs, an arbitrary run-length split of stts, chunks placed anywhere in mdat.
func m4Valid(r *rng, s *sink) (*m4Tables, []byte) {
	n := 1 + r.intn(9)
	samples := make([][]byte, n)
	for i := range samples {
		samples[i] = m4Sample(r)
		if r.chance(1, 12) {
			samples[i] = nil // zero-sized sample
		}
	}
	// composition of n into chunks
	var chunkLens []int
	for left := n; left > 0; {
		k := 1 + r.intn(3)
		if r.chance(1, 2) {
			k = 1
		}
		if k > left {
			k = left
		}
		chunkLens = append(chunkLens, k)
		left -= k
	}
	t := &m4Tables{track: true, ts: pick(r, []uint32{1000, 1000, 90000, 30000, 48000, 999, 1, 24, 600, 1000000, 1001})}
	// stsc: a new entry when the length changes (minimal) or at random (redundant)
	redundant := r.chance(1, 3)
	for i, k := range chunkLens {
		if i == 0 || chunkLens[i-1] != k || (redundant && r.chance(1, 2)) {
			t.stsc = append(t.stsc, [2]uint32{uint32(i + 1), uint32(k)})
		}
	}
	// the last chunk may hold fewer samples than its entry says only if it is the file's last: keep exact
	// stts: deltas per sample, run-length encoded with arbitrary extra splits
	deltas := make([]uint32, n)
	for i := range deltas {
		if i > 0 && r.chance(2, 3) {
			deltas[i] = deltas[i-1]
		} else {
			deltas[i] = uint32(pick(r, []int{1001, 1000, 1, 3003, 90000, 500, 17, 0}))
		}
	}
	if t.ts >= 30000 && r.chance(1, 6) {
		// a long recording: the summed sample durations pass 2^32 ticks (hours at these timescales)
		for i := range deltas {
			if r.chance(2, 3) {
				deltas[i] = pick(r, []uint32{1 << 31, 1<<32 - 1, 3000000000, 2592000000, 2592000090})
			}
		}
		s.count("m4.long_recording")
	}
	for i := 0; i < n; {
		j := i
		for j < n && deltas[j] == deltas[i] && !(j > i && r.chance(1, 4)) {
			j++
		}
		t.stts = append(t.stts, [2]uint32{uint32(j - i), deltas[i]})
		i = j
	}
	if r.chance(1, 5) {
		t.stts = append(t.stts, [2]uint32{uint32(r.intn(3)), 7}) // more time entries than samples
	}
	// place chunks in mdat in random order with gaps
	order := make([]int, len(chunkLens))
	for i := range order {
		order[i] = i
	}
	shuffle(r, order)
	chunkStart := make([]int, len(chunkLens))
	first := make([]int, len(chunkLens))
	for i, acc := 0, 0; i < len(chunkLens); i++ {
		first[i] = acc
		acc += chunkLens[i]
	}
	var payload []byte
	for _, ci := range order {
		for g := r.intn(3) * 4; g > 0; g-- {
			payload = append(payload, 0xEE)
		}
		chunkStart[ci] = len(payload)
		for k := 0; k < chunkLens[ci]; k++ {
			payload = append(payload, samples[first[ci]+k]...)
		}
	}
	t.co64 = r.chance(1, 3)
	t.fastStart = r.chance(1, 3)
	if !t.co64 && r.chance(1, 6) {
		t.spareCo = 1 + r.intn(3)
	}
	for _, st := range chunkStart {
		t.co = append(t.co, uint64(m4PayloadBase+st))
	}
	uniformOK := true
	for _, sm := range samples {
		t.sizes = append(t.sizes, uint32(len(sm)))
		if len(sm) != len(samples[0]) {
			uniformOK = false
		}
	}
	if uniformOK && len(samples[0]) > 0 && r.chance(1, 2) {
		t.uniform, t.sampleNr, t.sizes = uint32(len(samples[0])), uint32(n), nil
	}
	t.extra = r.intn(4)
	s.count("m4.samples." + bucket(n))
	s.count("m4.chunks." + bucket(len(chunkLens)))
	s.count(fmt.Sprintf("m4.ts.%d", t.ts))
	return t, payload
}

func m4Break(r *rng, t *m4Tables, s *sink) {
	k := r.intn(15)
	s.count(fmt.Sprintf("m4.break.%d", k))
	switch k {
	case 14:
		// tables that claim billions of samples (uniform size, one huge run) against a short stts:
		// an error after a few samples, not a walk through all of them
		t.uniform, t.sizes, t.sampleNr = pick(r, []uint32{8, 0, 16}), nil, pick(r, []uint32{0xFFFFFFFF, 0x7FFFFFFF, 100000000})
		t.stsc = [][2]uint32{{1, pick(r, []uint32{0xFFFFFFFF, 1, 0x7FFFFFFF})}}
	case 0:
		t.ts = 0
	case 1:
		if len(t.stsc) > 0 {
			t.stsc[r.intn(len(t.stsc))][0] = 0
		}
	case 2:
		if len(t.stsc) > 0 {
			t.stsc[r.intn(len(t.stsc))][1] = uint32(r.intn(20))
		}
	case 3:
		if len(t.stts) > 0 {
			t.stts = t.stts[:len(t.stts)-1]
		}
	case 4:
		if len(t.co) > 0 {
			t.co = t.co[:len(t.co)-1]
		}
	case 5:
		if len(t.co) > 0 {
			t.co[r.intn(len(t.co))] = uint64(r.intn(100000))
		}
	case 6:
		if len(t.sizes) > 0 {
			t.sizes[r.intn(len(t.sizes))] = uint32(r.intn(5000))
		} else {
			t.sampleNr = uint32(r.intn(40))
		}
	case 7:
		t.noCo = true
	case 8:
		t.track = false
	case 9:
		t.stsc = nil
	case 10:
		t.stts = nil
	case 11:
		if len(t.stsc) > 1 {
			t.stsc[0], t.stsc[1] = t.stsc[1], t.stsc[0]
		}
	case 12:
		t.sizes = append(t.sizes, uint32(r.intn(64)))
		if t.uniform != 0 {
			t.sampleNr += uint32(1 + r.intn(5))
		}
	default:
		if len(t.stsc) > 0 {
			t.stsc[len(t.stsc)-1][0] = uint32(1000 + r.intn(1000))
		}
	}
}

func genM4(cfg *config, r *rng, i int, s *sink) string {
	t, payload := m4Valid(r, s)
	mode := "wf"
	broken := i%5 == 4
	if cfg.prop == "C09" {
		broken = i%5 != 0
	}
	if broken {
		mode = "mut"
		for k := 1 + r.intn(2); k > 0; k-- {
			m4Break(r, t, s)
		}
		if r.chance(1, 3) {
			payload = gmMutate(r, payload)
		}
	}
	if !broken && r.chance(1, 4) {
		// the track is found by "GoPro MET" anywhere in its handler name: the first byte of the
		// camera's names is a length byte, joined or re-muxed files carry other names
		t.metName = pick(r, []string{"\x0bGoPro MET  ", "\x0eGoPro MET     ", "GoPro MET", "GoPro MET  ", "Joined GoPro MET", "#4 GoPro MET  ", " GoPro MET", "xGoPro METx"})
		s.count("m4.metname")
	}
	if !broken && r.chance(1, 12) {
		// no metadata track, but one that nearly is: wrong handler type, or a name without "GoPro MET"
		t.track = false
		t.decoy = pick(r, [][2]string{{"meta", "\tGoPro SOS"}, {"meta", "\tGoPro MEt"}, {"meta", "\tgopro met"}, {"meta", "\tGoPro  MET"},
			{"text", "\tGoPro MET"}, {"vide", "\tGoPro MET"}, {"meta", ""}})
		s.count("m4.decoy")
	}
	s.count("m4.mode." + mode)
	return m4Op(mode, t, t.file(payload))
}

func corpusM4(cfg *config) []string {
	r := newRng(99)
	one := m4Sample(r)
	two := m4Sample(r)
	var ops []string
	// two samples in one chunk; four one-sample chunks with stts runs [1,3]; timescale 90000
	p := append(append([]byte{}, one...), two...)
	t1 := &m4Tables{track: true, ts: 1000, stsc: [][2]uint32{{1, 2}}, stts: [][2]uint32{{2, 1000}},
		sizes: []uint32{uint32(len(one)), uint32(len(two))}, co: []uint64{m4PayloadBase}}
	ops = append(ops, m4Op("wf", t1, t1.file(p)))
	p4 := bytes.Repeat(one, 4)
	t2 := &m4Tables{track: true, ts: 90000, stsc: [][2]uint32{{1, 1}}, stts: [][2]uint32{{1, 1000}, {3, 3003}},
		uniform: uint32(len(one)), sampleNr: 4}
	for k := 0; k < 4; k++ {
		t2.co = append(t2.co, uint64(m4PayloadBase+k*len(one)))
	}
	ops = append(ops, m4Op("wf", t2, t2.file(p4)))
	// a two-second payload of a high-rate camera: 6000 accelerometer and 6000 gyroscope readings, a
	// device container of 72 KB (its length no longer fits 16 bits: structure size 4 x repeat), then an
	// ordinary payload
	bigDev := nest("DEVC", klv("DVID", 'L', 4, 1, beInts(4, 1)),
		nest("STRM", klv("SCAL", 's', 2, 1, beInts(2, 418)), klv("ACCL", 's', 6, 6000, gmValueBytes(r, 36000))),
		nest("STRM", klv("SCAL", 's', 2, 1, beInts(2, 3755)), klv("GYRO", 's', 6, 6000, gmValueBytes(r, 36000))))
	pb := append(append([]byte{}, bigDev...), one...)
	tb := &m4Tables{track: true, ts: 1000, stsc: [][2]uint32{{1, 2}}, stts: [][2]uint32{{1, 2000}, {1, 1001}},
		sizes: []uint32{uint32(len(bigDev)), uint32(len(one))}, co: []uint64{m4PayloadBase}}
	ops = append(ops, m4Op("wf", tb, tb.file(pb)))
	// empty file, no metadata track, zero timescale
	ops = append(ops, "dec mut ts=1000 track=0 stsc=~ stts=~ sz=~ uni=0 sn=0 co=~ file=-")
	t3 := *t1
	t3.track = false
	ops = append(ops, m4Op("wf", &t3, t3.file(p)))
	t4 := *t1
	t4.ts = 0
	ops = append(ops, m4Op("mut", &t4, t4.file(p)))
	// chunks behind the 2 GiB and 4 GiB marks (stco reaches 4 GiB, co64 is for what lies beyond): three
	// one-sample chunks with a hole — video nobody points into — before the last; the file is read
	// through a sparse reader
	p3 := append(append(append([]byte{}, one...), two...), one...)
	for _, h := range []struct {
		target uint64 // file position of the third chunk
		co64   bool
		fast   bool
	}{{1<<31 - 8, false, false}, {1 << 31, false, false}, {1 << 31, false, true}, {3 << 30, true, false}, {1<<32 - 4096, false, false}, {1<<32 + 4096, true, false}} {
		t5 := &m4Tables{track: true, ts: 1000, stsc: [][2]uint32{{1, 1}}, stts: [][2]uint32{{3, 1001}},
			sizes: []uint32{uint32(len(one)), uint32(len(two)), uint32(len(one))}, co64: h.co64, fastStart: h.fast,
			co: []uint64{m4PayloadBase, uint64(m4PayloadBase + len(one)), uint64(m4PayloadBase + len(one) + len(two))}}
		t5.holeAt = len(one) + len(two)
		t5.holeLen = h.target - uint64(m4PayloadBase+t5.holeAt)
		if cfg.tier == "quick" && (h.target != 1<<31 || h.fast) {
			continue // one multi-gigabyte (virtual) file is enough for the quick tier
		}
		ops = append(ops, m4Op("wf", t5, t5.file(p3)))
	}
	_ = strconv.Itoa
	return ops
}
