package main

import (
	"bytes"
	"compress/gzip"
	"encoding/xml"
	"errors"
	"fmt"
	"io"
	"os"
	"path/filepath"
	"reflect"
	"runtime"
	"strconv"
	"strings"
	"sync/atomic"
	"time"

	"github.com/stevenh/tracktools/pkg/laptimer"
)

func init() {
	areas["LT"] = &area{gen: genLT, exec: execLT, corpus: corpusLT}
}

// faultWriter fails from its k-th Write on and optionally yields to stir the scheduler.
type faultWriter struct {
	buf      bytes.Buffer
	n, k     int
	yield    bool
	slow     bool
	failed   bool
	err      error       // what a failing write returns (default: a private error)
	full     bool        // the failing write reports the full byte count together with its error
	returned atomic.Bool // set as soon as Encode has returned
	late     atomic.Int32
}

func (w *faultWriter) Write(p []byte) (int, error) {
	if w.returned.Load() {
		// activity on the caller's output after the call has returned
		w.late.Add(1)
	}
	if w.yield {
		runtime.Gosched()
	}
	if w.slow {
		time.Sleep(100 * time.Microsecond)
	}
	if w.k >= 0 && w.n >= w.k {
		w.failed = true
		n := 0
		if w.full {
			n = len(p) // allowed by io.Writer: the data was taken, the write still failed
		}
		if w.err != nil {
			return n, w.err
		}
		return n, errors.New("injected write failure")
	}
	w.n++
	return w.buf.Write(p)
}

// a document whose last element cannot be marshalled: the xml encoder fails on its own after
// everything before it has been produced
type failingTail struct{}

func (failingTail) MarshalXML(*xml.Encoder, xml.StartElement) error {
	return errors.New("cannot marshal this element")
}

type failingDoc struct {
	XMLName xml.Name       `xml:"LapTimerDB"`
	Name    string         `xml:"name"`
	Laps    []laptimer.Lap `xml:"lap"`
	Tail    failingTail    `xml:"tail"`
}

var ltHangs int

// ltWait: how long a call may take before it counts as not returning. The watchdog is about hangs,
// not speed: on a loaded machine a "slow" output (a 100 µs sleep per write, in practice a timer
// tick) can take many seconds for a thousand writes.
func ltWait(slow bool) time.Duration {
	if slow {
		return 2 * time.Minute
	}
	return 30 * time.Second
}

func ltWriteErr(kind string) error {
	switch kind {
	case "closedpipe":
		return io.ErrClosedPipe
	case "eof":
		return io.EOF
	case "ueof":
		return io.ErrUnexpectedEOF
	case "closed":
		return os.ErrClosed
	case "short":
		return io.ErrShortWrite
	}
	return nil // "inj", "full": a private error value
}

var errLtPanic = errors.New("panic inside Encode")

func ltDB(laps, pad int) *laptimer.DB {
	db := laptimer.NewDB()
	for i := 0; i < laps; i++ {
		lap := laptimer.Lap{ID: i, Track: strings.Repeat("x", pad), Note: "line1\nline2"}
		// laps of several shapes: manually timed ones without fixes and with no distance, laps with
		// tags (the last of them empty: what `--tags ""` and an empty <tags/> element give), laps with fixes
		switch i % 5 {
		case 1:
			lap.Tags = laptimer.Tags{"Me", ""}
		case 2:
			lap.Recording.Fixes = []laptimer.Fix{{ID: 1}, {ID: 2}}
			lap.OverallDistance = 75
		case 3:
			lap.Tags = laptimer.Tags{""}
			lap.OverallDistance = 1200
		}
		db.Laps = append(db.Laps, lap)
	}
	return db
}

func ltRun(toks []string) string {
	laps, _ := strconv.Atoi(cvField(toks, "laps"))
	pad, _ := strconv.Atoi(cvField(toks, "pad"))
	k := -1
	if ks := cvField(toks, "k"); ks != "-" {
		k, _ = strconv.Atoi(ks)
	}
	gz := cvField(toks, "gz") == "1"
	procs, _ := strconv.Atoi(cvField(toks, "procs"))
	yield := cvField(toks, "yield") == "1"
	mf := cvField(toks, "mf") == "1"
	// a slow output only for documents of at most ~1300 writes (the watchdog is about hangs, not speed)
	slow := cvField(toks, "slow") == "1" && laps <= 60
	werr := ltWriteErr(cvField(toks, "ek"))
	if procs > 0 {
		defer runtime.GOMAXPROCS(runtime.GOMAXPROCS(procs))
	}
	opts := []laptimer.EncoderOpt{}
	if gz {
		opts = append(opts, laptimer.Compress())
	}
	if ltHangs >= 3 {
		// every hang costs a watchdog period: after three the run is decided
		return "hang-skipped"
	}
	var db any = ltDB(laps, pad)
	if mf {
		fd := &failingDoc{Name: "x"}
		for _, l := range ltDB(laps, pad).Laps {
			l.Note = "" // no line feeds inside values: output lines = pipe lines
			fd.Laps = append(fd.Laps, l)
		}
		db = fd
	}

	// fault-free reference run (with an unmarshallable document it fails, on a working output)
	ref := &faultWriter{k: -1}
	refDone := make(chan error, 1)
	go func() {
		// (a crash inside Encode is an answer — "panic" — not the end of the run)
		defer func() {
			if recover() != nil {
				refDone <- errLtPanic
			}
		}()
		enc, _ := laptimer.NewEncoder(ref, opts...)
		refDone <- enc.Encode(db)
	}()
	select {
	case err := <-refDone:
		if err == errLtPanic {
			return "panic"
		}
		if err != nil && !mf {
			return fmt.Sprintf("bad reference run: %v", err)
		}
		// (an unmarshallable document that encodes "successfully" is judged below, on the real run)
	case <-time.After(ltWait(slow)):
		// even on a working output the call does not return
		ltHangs++
		return "hang"
	}
	full := ref.buf.Bytes()
	// the complete document, rendered independently of the encoder's pipe and line filter: the
	// standard indenting marshaller, then LapTimer's four spellings
	content := "na"
	if !mf {
		if piped, perr := xml.MarshalIndent(db, "", "\t"); perr == nil {
			want := xml.Header + strings.NewReplacer("&#34;", "&quot;", "&#39;", "&apos;", "&#xA;", "\n", "&#x9;", "\t").Replace(string(piped))
			got := full
			if gz {
				got = nil
				if zr, zerr := gzip.NewReader(bytes.NewReader(full)); zerr == nil {
					got, _ = io.ReadAll(zr)
				}
			}
			content = b01(string(got) == want)
		}
	}
	lines := 0
	if !gz {
		if mf {
			lines = bytes.Count(full[len(xml.Header):], []byte("\n"))
		} else {
			// what the pipe carries: the indented document before the filter's replacements
			piped, _ := xml.MarshalIndent(db, "", "\t")
			lines = bytes.Count(piped, []byte("\n"))
		}
	}

	before := runtime.NumGoroutine()
	fw := &faultWriter{k: k, yield: yield, slow: slow, err: werr, full: cvField(toks, "ek") == "full"}
	done := make(chan error, 1)
	go func() {
		defer func() {
			if recover() != nil {
				done <- errLtPanic
			}
		}()
		e, _ := laptimer.NewEncoder(fw, opts...)
		err := e.Encode(db)
		fw.returned.Store(true)
		done <- err
	}()
	var err error
	select {
	case err = <-done:
		if err == errLtPanic {
			return "panic"
		}
	case <-time.After(ltWait(slow)):
		ltHangs++
		return "hang"
	}
	// no background activity once Encode has returned: let finished goroutines settle
	leaked := 0
	for i := 0; i < 50; i++ {
		leaked = runtime.NumGoroutine() - before
		if leaked <= 0 {
			break
		}
		time.Sleep(2 * time.Millisecond)
	}
	if leaked < 0 {
		leaked = 0
	}
	ret := "ok"
	if err != nil {
		ret = "err"
	}
	got := fw.buf.Bytes()
	same := "0"
	if bytes.HasPrefix(full, got) {
		same = "1"
	}
	late := fw.late.Load()
	// with compression, "complete" means a finished gzip stream of exactly the plain document
	complete := "na"
	if gz && err == nil {
		complete = "0"
		refPlain := &faultWriter{k: -1}
		pe, _ := laptimer.NewEncoder(refPlain)
		if pe.Encode(db) == nil {
			if zr, zerr := gzip.NewReader(bytes.NewReader(got)); zerr == nil {
				if plain, rerr := io.ReadAll(zr); rerr == nil && bytes.Equal(plain, refPlain.buf.Bytes()) {
					complete = "1"
				}
			}
		}
	}
	return fmt.Sprintf("ret=%s W=%d lines=%d total=%d delivered=%d same=%s leaked=%d complete=%s late=%d content=%s", ret, ref.n, lines, len(full), len(got), same, leaked, complete, late, content)
}

func execLT(_ *config, op string) string {
	toks := strings.Fields(op)
	switch toks[0] {
	case "rt":
		var out string
		cls, _ := classify(func() error { out = ltRoundTrip(toks[3:]); return nil })
		if cls == "panic" {
			return "panic"
		}
		return out
	case "dec":
		var out string
		cls, _ := classify(func() error { out = ltDecodeOp(toks[1]); return nil })
		if cls == "panic" {
			return "panic"
		}
		return out
	case "run":
		var out string
		cls, _ := classify(func() error { out = ltRun(toks); return nil })
		if cls == "panic" {
			return "panic"
		}
		return out
	}
	return "bad"
}

func ltGenDB(r *rng, s *sink, domain bool) *laptimer.DB {
	g := &ltGen{r: r, s: s, domain: domain}
	db := &laptimer.DB{}
	g.value(reflect.ValueOf(db).Elem(), "", 0)
	if r.chance(1, 2) {
		db.Name = "LapTimer Database"
	}
	s.count("lt.laps." + bucket(len(db.Laps)))
	return db
}

func ltMutateDoc(r *rng, b []byte) []byte {
	b = append([]byte{}, b...)
	if len(b) == 0 {
		return b
	}
	for n := 1 + r.intn(2); n > 0; n-- {
		i := r.intn(len(b))
		switch r.intn(7) {
		case 0: // replace a byte with an XML-significant or numeric character
			b[i] = pick(r, []byte("<>&;\"'/=.,:-0123456789 \t\nxe%"))
		case 1: // delete a span
			j := i + r.intn(12)
			if j > len(b) {
				j = len(b)
			}
			b = append(b[:i], b[j:]...)
		case 2: // duplicate a span
			j := i + r.intn(40)
			if j > len(b) {
				j = len(b)
			}
			b = append(b[:j], append(append([]byte{}, b[i:j]...), b[j:]...)...)
		case 3: // insert an entity or reference
			ins := pick(r, []string{"&lt;", "&#65;", "&#x41;", "&quote;", "&#1;", "&amp", "&#xD;", "&;", "&apos;", "<!-- c -->", "<x/>", "<y>1</y>", "\r\n", "\r"})
			b = append(b[:i], append([]byte(ins), b[i:]...)...)
		case 4: // truncate
			b = b[:i]
		case 5: // swap a digit
			for k := i; k < len(b); k++ {
				if b[k] >= '0' && b[k] <= '9' {
					b[k] = byte('0' + r.intn(10))
					break
				}
			}
		default: // change the declared charset
			b = bytes.Replace(b, []byte(`encoding="UTF-8"`), []byte(pick(r, []string{`encoding="windows-1252"`, `encoding="utf-8"`, `encoding='UTF-8'`, `encoding="latin1"`, ``})), 1)
		}
		if len(b) == 0 {
			break
		}
	}
	return b
}

func genLT(cfg *config, r *rng, i int, s *sink) string {
	switch cfg.prop {
	case "C01", "C13":
		domain := cfg.prop == "C01" || r.chance(1, 2)
		if cfg.prop == "C01" && i%5 == 4 {
			s.count("lt.op.dec_mut")
			enc, err := ltEncode(ltGenDB(r, s, true), false)
			if err != nil {
				return "dec -"
			}
			return "dec " + hexBytes(ltMutateDoc(r, enc))
		}
		s.count("lt.op.rt")
		return "rt P=" + cfg.prop + " D=" + b01(domain) + " " + strings.Join(ltDumpDB(ltGenDB(r, s, domain)), " ")
	}
	// documents from a few bytes to several pipe buffers (4096-byte bufio chunks)
	laps := pick(r, []int{0, 1, 2, 5, 20, 60, 150, 400})
	pad := pick(r, []int{0, 10, 100, 3000, 5000})
	if laps*pad > 400000 {
		pad = 100
	}
	if r.chance(1, 12) {
		// one line longer than any buffer on the way (64 KiB and more), with document left after it
		laps, pad = pick(r, []int{2, 3, 5}), pick(r, []int{66000, 70000, 150000})
		s.count("lt.long_line")
	}
	gz := r.chance(1, 3)
	k := "-"
	if r.chance(5, 6) {
		// every write index is reachable: W is about 1 + lines + 1
		w := 3 + laps*20
		if gz {
			w = 3 + laps/20
		}
		switch r.intn(4) {
		case 0:
			k = fmt.Sprint(r.intn(4))
		case 1:
			k = fmt.Sprint(w - r.intn(4))
		default:
			k = fmt.Sprint(r.intn(w + 3))
		}
	}
	s.count("lt.laps." + bucket(laps))
	s.count("lt.gz." + b01(gz))
	// the document itself may be unmarshallable; the output may be slow (so that anything still
	// running after the return shows) and may fail with an error value the code knows
	mf := r.chance(1, 4)
	slow := r.chance(1, 3)
	ek := pick(r, []string{"inj", "inj", "full", "closedpipe", "eof", "ueof", "closed", "short"})
	s.count("lt.mf." + b01(mf))
	s.count("lt.ek." + ek)
	return fmt.Sprintf("run laps=%d pad=%d k=%s gz=%s procs=%d yield=%s mf=%s slow=%s ek=%s", laps, pad, k, b01(gz), pick(r, []int{1, 2, 4, 16}), b01(r.bool()), b01(mf), b01(slow), ek)
}

func corpusLT(cfg *config) []string {
	var ops []string
	if cfg.prop == "C01" || cfg.prop == "C13" {
		// the two real LapTimer exports in the repository (windows-1252 declared)
		for _, n := range []string{"LapTimer-0009-20220607-110056.hlptr", "LapTimer-0060-20220624-164840.hlptr"} {
			if d, err := os.ReadFile(filepath.Join(cfg.repo, "test", n)); err == nil && len(d) > 0 {
				ops = append(ops, "dec "+hexBytes(d))
			}
		}
		// past failures, minimal: every XML-significant character in one text field
		db := laptimer.NewDB()
		db.Laps = []laptimer.Lap{{Date: laptimer.LapDate(time.Unix(1654000000, 0)), Track: "q\" a' & < > \t \n \r", Note: "x"}}
		ops = append(ops, "rt P="+cfg.prop+" D=1 "+strings.Join(ltDumpDB(db), " "))
		// a text element well beyond 64 KiB (many entity-dense lines), and one line of 70 KB
		dbl := laptimer.NewDB()
		dbl.Laps = []laptimer.Lap{{Date: laptimer.LapDate(time.Unix(1654000000, 0)), Track: "t",
			Note: strings.Repeat("Session 3: tyres \"cold\", rear stepped out at St Mary's\n", 1500)},
			{Date: laptimer.LapDate(time.Unix(1654000100, 0)), Track: strings.Repeat("long & <wide> ", 5000), Note: "after"}}
		ops = append(ops, "rt P="+cfg.prop+" D=1 "+strings.Join(ltDumpDB(dbl), " "))
		// past model/implementation disagreements (minimised)
		for _, doc := range []string{
			"<?'ml version=\"1.0\"?><LapTimerDB><name>x</name></LapTimerDB>",
			"<?/ml version=\"1.0&amp\"?><LapTimerDB><name>x</name></LapTimerDB>",
			"<?xml version=\"1.0\"?><LapTimerDB><?xml version=\"1.1\"?><name>x</name></LapTimerDB>",
			"<?pi?><LapTimerDB><?p a?><name>x</name></LapTimerDB>",
		} {
			ops = append(ops, "dec "+hexStr(doc))
		}
		if cfg.prop == "C01" {
			// recorded finding: an omitempty fixed-decimal that is not zero but prints as zero
			db2 := laptimer.NewDB()
			db2.Laps = []laptimer.Lap{{Date: laptimer.LapDate(time.Unix(1654000000, 0)), Track: "t", AmbientTemp: 0.04}}
			ops = append(ops, "rt P=C01 D=1 "+strings.Join(ltDumpDB(db2), " "))
		}
		return ops
	}
	// every write index of one two-buffer document, plain and gzip
	for k := 0; k <= 48; k++ {
		ops = append(ops, fmt.Sprintf("run laps=3 pad=3000 k=%d gz=0 procs=2 yield=1", k))
	}
	for k := 0; k <= 6; k++ {
		ops = append(ops, fmt.Sprintf("run laps=40 pad=3000 k=%d gz=1 procs=4 yield=0", k))
	}
	ops = append(ops, "run laps=400 pad=40 k=3 gz=0 procs=1 yield=0")
	// a line longer than 64 KiB with document left after it, plain and compressed
	ops = append(ops, "run laps=3 pad=70000 k=- gz=0 procs=2 yield=0", "run laps=3 pad=70000 k=- gz=1 procs=1 yield=0", "run laps=2 pad=150000 k=5 gz=0 procs=4 yield=1")
	// documents that cannot be marshalled to the end, on a slow working output and on failing ones
	for _, laps := range []int{0, 40, 60} {
		ops = append(ops, fmt.Sprintf("run laps=%d pad=10 k=- gz=0 procs=2 yield=0 mf=1 slow=1 ek=inj", laps))
		ops = append(ops, fmt.Sprintf("run laps=%d pad=10 k=- gz=1 procs=2 yield=0 mf=1 slow=1 ek=inj", laps))
		ops = append(ops, fmt.Sprintf("run laps=%d pad=10 k=2 gz=0 procs=2 yield=1 mf=1 slow=0 ek=inj", laps))
	}
	// the last writes failing with error values a pipe-based implementation might mistake for
	// its own shutdown
	for _, ek := range []string{"closedpipe", "eof", "ueof", "closed", "full"} {
		for k := 40; k <= 48; k++ {
			ops = append(ops, fmt.Sprintf("run laps=3 pad=3000 k=%d gz=0 procs=2 yield=0 mf=0 slow=0 ek=%s", k, ek))
		}
	}
	return ops
}
