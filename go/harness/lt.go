package main

import (
	"bytes"
	"encoding/xml"
	"errors"
	"fmt"
	"runtime"
	"strconv"
	"strings"
	"time"

	"github.com/stevenh/tracktools/pkg/laptimer"
)

func init() {
	areas["LT"] = &area{gen: genLT, exec: execLT, corpus: corpusLT}
}

// faultWriter fails from its k-th Write on and optionally yields to stir the scheduler.
type faultWriter struct {
	buf    bytes.Buffer
	n, k   int
	yield  bool
	failed bool
}

func (w *faultWriter) Write(p []byte) (int, error) {
	if w.yield {
		runtime.Gosched()
	}
	if w.k >= 0 && w.n >= w.k {
		w.failed = true
		return 0, errors.New("injected write failure")
	}
	w.n++
	return w.buf.Write(p)
}

func ltDB(laps, pad int) *laptimer.DB {
	db := laptimer.NewDB()
	for i := 0; i < laps; i++ {
		db.Laps = append(db.Laps, laptimer.Lap{ID: i, Track: strings.Repeat("x", pad), Note: "line1\nline2"})
	}
	return db
}

func ltRun(toks []string) string {
	laps, _ := strconv.Atoi(cvField(toks, "laps"))
	pad, _ := strconv.Atoi(cvField(toks, "pad"))
	k := -1
	if ks := cvField(toks, "k"); ks != "-" {
		k, _ = strconv.Atoi(ks)
	}
	gz := cvField(toks, "gz") == "1"
	procs, _ := strconv.Atoi(cvField(toks, "procs"))
	yield := cvField(toks, "yield") == "1"
	if procs > 0 {
		defer runtime.GOMAXPROCS(runtime.GOMAXPROCS(procs))
	}
	opts := []laptimer.EncoderOpt{}
	if gz {
		opts = append(opts, laptimer.Compress())
	}
	db := ltDB(laps, pad)

	// fault-free reference run
	ref := &faultWriter{k: -1}
	enc, _ := laptimer.NewEncoder(ref, opts...)
	if err := enc.Encode(db); err != nil {
		return "bad reference run: " + err.Error()
	}
	full := ref.buf.Bytes()
	lines := 0
	if !gz {
		// what the pipe carries: the indented document before the filter's replacements
		piped, _ := xml.MarshalIndent(db, "", "\t")
		lines = bytes.Count(piped, []byte("\n"))
	}

	before := runtime.NumGoroutine()
	fw := &faultWriter{k: k, yield: yield}
	done := make(chan error, 1)
	go func() {
		e, _ := laptimer.NewEncoder(fw, opts...)
		done <- e.Encode(db)
	}()
	var err error
	select {
	case err = <-done:
	case <-time.After(5 * time.Second):
		return "hang"
	}
	// no background activity once Encode has returned: let finished goroutines settle
	leaked := 0
	for i := 0; i < 50; i++ {
		leaked = runtime.NumGoroutine() - before
		if leaked <= 0 {
			break
		}
		time.Sleep(2 * time.Millisecond)
	}
	if leaked < 0 {
		leaked = 0
	}
	ret := "ok"
	if err != nil {
		ret = "err"
	}
	got := fw.buf.Bytes()
	same := "0"
	if bytes.HasPrefix(full, got) {
		same = "1"
	}
	return fmt.Sprintf("ret=%s W=%d lines=%d total=%d delivered=%d same=%s leaked=%d", ret, ref.n, lines, len(full), len(got), same, leaked)
}

func execLT(_ *config, op string) string {
	toks := strings.Fields(op)
	switch toks[0] {
	case "run":
		var out string
		cls, _ := classify(func() error { out = ltRun(toks); return nil })
		if cls == "panic" {
			return "panic"
		}
		return out
	}
	return "bad"
}

func genLT(cfg *config, r *rng, i int, s *sink) string {
	// documents from a few bytes to several pipe buffers (4096-byte bufio chunks)
	laps := pick(r, []int{0, 1, 2, 5, 20, 60, 150, 400})
	pad := pick(r, []int{0, 10, 100, 3000, 5000})
	if laps*pad > 400000 {
		pad = 100
	}
	gz := r.chance(1, 3)
	k := "-"
	if r.chance(5, 6) {
		// every write index is reachable: W is about 1 + lines + 1
		w := 3 + laps*20
		if gz {
			w = 3 + laps/20
		}
		switch r.intn(4) {
		case 0:
			k = fmt.Sprint(r.intn(4))
		case 1:
			k = fmt.Sprint(w - r.intn(4))
		default:
			k = fmt.Sprint(r.intn(w + 3))
		}
	}
	s.count("lt.laps." + bucket(laps))
	s.count("lt.gz." + b01(gz))
	return fmt.Sprintf("run laps=%d pad=%d k=%s gz=%s procs=%d yield=%s", laps, pad, k, b01(gz), pick(r, []int{1, 2, 4, 16}), b01(r.bool()))
}

func corpusLT(cfg *config) []string {
	var ops []string
	// every write index of one two-buffer document, plain and gzip
	for k := 0; k <= 48; k++ {
		ops = append(ops, fmt.Sprintf("run laps=3 pad=3000 k=%d gz=0 procs=2 yield=1", k))
	}
	for k := 0; k <= 6; k++ {
		ops = append(ops, fmt.Sprintf("run laps=40 pad=3000 k=%d gz=1 procs=4 yield=0", k))
	}
	ops = append(ops, "run laps=400 pad=40 k=3 gz=0 procs=1 yield=0")
	return ops
}
