package main

import (
	"bytes"
	"compress/gzip"
	"encoding/json"
	"fmt"
	"github.com/stevenh/tracktools/pkg/gopro"
	"go/ast"
	"go/parser"
	"go/token"
	"io"
	"io/fs"
	"math"
	"os"
	"os/exec"
	"path/filepath"
	"regexp"
	"sort"
	"strconv"
	"strings"
	"time"

	"github.com/stevenh/tracktools/pkg/convert"
	"github.com/stevenh/tracktools/pkg/laptimer"
	"github.com/stevenh/tracktools/pkg/trackaddict"
	"github.com/tidwall/geodesic"
)

// Area CL: the built tracktools binary — argv, config files (explicit / cwd / home / none),
// stdin / files -> effective options (from the binary's own trace line), stdout / output file,
// exit status.

func init() {
	areas["CL"] = &area{gen: genCL, exec: execCL, corpus: corpusCL}
}

var clBinary string

func clBuild(cfg *config) (string, error) {
	if clBinary != "" {
		return clBinary, nil
	}
	dir, err := os.MkdirTemp("", "verif-cli-")
	if err != nil {
		return "", err
	}
	bin := filepath.Join(dir, "tracktools")
	cmd := exec.Command("go", "build", "-o", bin, "./cmd/tracktools")
	cmd.Dir = cfg.repo
	cmd.Env = append(os.Environ(), "GOFLAGS=-mod=mod", "GOPROXY=off", "GOSUMDB=off", "GOTOOLCHAIN=local")
	if out, err := cmd.CombinedOutput(); err != nil {
		return "", fmt.Errorf("go build: %v: %s", err, out)
	}
	clBinary = bin
	return bin, nil
}

// ---- scenario text ----------------------------------------------------------------------------
//
// cl cmd=<convert|gopro.convert|gopro.laptimes|gopro.render> which=<explicit|cwd|home|both|none|missing>
//    F=<flag:kind:hexvalue,…|~> C=<dotted.path:kind:hexvalue,…|~> H=<same, the home file when which=both|~>
//    io=<f|s|r><f|o>[x] in=<hex input|->    (input: file, pipe, redirected file; output: file, stdout; x: the output file exists already, with longer content)
//
// kinds: s string, b bool, i int, f float (decimal text), l string list (hex items joined by +), d date

type clKV struct{ key, kind, val string }

func clParseKVs(s string) []clKV {
	if s == "~" || s == "" {
		return nil
	}
	var res []clKV
	for _, e := range strings.Split(s, ",") {
		p := strings.SplitN(e, ":", 3)
		res = append(res, clKV{p[0], p[1], p[2]})
	}
	return res
}

func clItems(v string) []string {
	if v == "~" {
		return nil
	}
	var out []string
	for _, h := range strings.Split(v, "+") {
		out = append(out, unhexStr(h))
	}
	return out
}

// clToml renders dotted paths as nested TOML tables (inline table for the 4th level).
func clToml(kvs []clKV) string {
	type node struct {
		leaf *clKV
		kids map[string]*node
		ord  []string
	}
	root := &node{kids: map[string]*node{}}
	for i := range kvs {
		parts := strings.Split(kvs[i].key, ".")
		n := root
		for _, p := range parts[:len(parts)-1] {
			if n.kids[p] == nil {
				n.kids[p] = &node{kids: map[string]*node{}}
				n.ord = append(n.ord, p)
			}
			n = n.kids[p]
		}
		last := parts[len(parts)-1]
		if n.kids[last] == nil {
			n.ord = append(n.ord, last)
		}
		n.kids[last] = &node{leaf: &kvs[i]}
	}
	val := func(kv *clKV) string {
		switch kv.kind {
		case "s", "d":
			return strconv.Quote(unhexStr(kv.val))
		case "l":
			var qs []string
			for _, it := range clItems(kv.val) {
				qs = append(qs, strconv.Quote(it))
			}
			return "[" + strings.Join(qs, ", ") + "]"
		default:
			return unhexStr(kv.val)
		}
	}
	var b strings.Builder
	var emit func(n *node, path []string)
	emit = func(n *node, path []string) {
		// leaves first, then sub-tables
		wrote := false
		for _, k := range n.ord {
			c := n.kids[k]
			if c.leaf != nil {
				if !wrote && len(path) > 0 {
					fmt.Fprintf(&b, "[%s]\n", strings.Join(path, "."))
					wrote = true
				}
				fmt.Fprintf(&b, "%s = %s\n", k, val(c.leaf))
			}
		}
		for _, k := range n.ord {
			c := n.kids[k]
			if c.leaf == nil {
				allLeaves := true
				for _, kk := range c.ord {
					if c.kids[kk].leaf == nil {
						allLeaves = false
					}
				}
				if allLeaves && len(path) >= 2 {
					// inline table (the shape of "Start = {…}" in the shipped config)
					if !wrote && len(path) > 0 {
						fmt.Fprintf(&b, "[%s]\n", strings.Join(path, "."))
						wrote = true
					}
					var items []string
					for _, kk := range c.ord {
						items = append(items, kk+" = "+val(c.kids[kk].leaf))
					}
					fmt.Fprintf(&b, "%s = {%s}\n", k, strings.Join(items, ", "))
				}
			}
		}
		for _, k := range n.ord {
			c := n.kids[k]
			if c.leaf == nil {
				allLeaves := true
				for _, kk := range c.ord {
					if c.kids[kk].leaf == nil {
						allLeaves = false
					}
				}
				if !(allLeaves && len(path) >= 2) {
					emit(c, append(append([]string{}, path...), k))
				}
			}
		}
	}
	emit(root, nil)
	return b.String()
}

// clJSON renders the same settings as a JSON document (a config file is a config file: viper
// picks the format by the file's extension).
func clJSON(kvs []clKV) string {
	root := map[string]any{}
	for i := range kvs {
		parts := strings.Split(kvs[i].key, ".")
		n := root
		for _, p := range parts[:len(parts)-1] {
			if _, ok := n[p].(map[string]any); !ok {
				n[p] = map[string]any{}
			}
			n = n[p].(map[string]any)
		}
		var v any
		switch kvs[i].kind {
		case "s", "d":
			v = unhexStr(kvs[i].val)
		case "l":
			items := clItems(kvs[i].val)
			if items == nil {
				items = []string{}
			}
			v = items
		case "b":
			v = unhexStr(kvs[i].val) == "true"
		default:
			v = json.RawMessage(unhexStr(kvs[i].val))
		}
		n[parts[len(parts)-1]] = v
	}
	b, _ := json.Marshal(root)
	return string(b)
}

var clCfgRe = regexp.MustCompile(`Loaded config .*?cfg=(?:\x1b\[[0-9;]*m)*("(?:[^"\\]|\\.)*")`)
var clAnsi = regexp.MustCompile(`\x1b\[[0-9;]*m`)

// clObserved parses the %#v struct literal of the trace line into "Path.To.Field=kind:value".
func clObserved(stderr string) (string, bool) {
	m := clCfgRe.FindStringSubmatch(stderr)
	if m == nil {
		return "", false
	}
	lit, err := strconv.Unquote(m[1])
	if err != nil {
		return "", false
	}
	expr, err := parser.ParseExpr(lit)
	if err != nil {
		return "", false
	}
	var out []string
	var walk func(e ast.Expr, path []string)
	walk = func(e ast.Expr, path []string) {
		switch t := e.(type) {
		case *ast.UnaryExpr:
			if bl, ok := t.X.(*ast.BasicLit); ok && t.Op == token.SUB {
				f, _ := strconv.ParseFloat(bl.Value, 64)
				out = append(out, strings.Join(path, ".")+"=n:"+rawBits64(-f))
				return
			}
			walk(t.X, path)
		case *ast.CompositeLit:
			typ := ""
			switch tt := t.Type.(type) {
			case *ast.SelectorExpr:
				typ = tt.Sel.Name
			case *ast.ArrayType:
				typ = "[]"
			}
			if typ == "date" {
				var wall, ext int64
				for _, el := range t.Elts {
					kv := el.(*ast.KeyValueExpr)
					if bl, ok := kv.Value.(*ast.BasicLit); ok {
						n, _ := strconv.ParseInt(bl.Value, 0, 64)
						switch kv.Key.(*ast.Ident).Name {
						case "wall":
							wall = n
						case "ext":
							ext = n
						}
					}
				}
				d := ""
				if wall != 0 || ext != 0 {
					d = time.Unix(ext-62135596800, 0).UTC().Format("2006-01-02")
				}
				out = append(out, strings.Join(path, ".")+"=d:"+hexStr(d))
				return
			}
			if typ == "[]" {
				var items []string
				for _, el := range t.Elts {
					if bl, ok := el.(*ast.BasicLit); ok && bl.Kind == token.STRING {
						s, _ := strconv.Unquote(bl.Value)
						items = append(items, hexStr(s))
					}
				}
				v := "~"
				if len(items) > 0 {
					v = strings.Join(items, "+")
				}
				out = append(out, strings.Join(path, ".")+"=l:"+v)
				return
			}
			for _, el := range t.Elts {
				kv, ok := el.(*ast.KeyValueExpr)
				if !ok {
					continue
				}
				name := kv.Key.(*ast.Ident).Name
				if !ast.IsExported(name) {
					continue
				}
				walk(kv.Value, append(append([]string{}, path...), name))
			}
		case *ast.BasicLit:
			switch t.Kind {
			case token.STRING:
				s, _ := strconv.Unquote(t.Value)
				out = append(out, strings.Join(path, ".")+"=s:"+hexStr(s))
			default:
				f, _ := strconv.ParseFloat(t.Value, 64)
				out = append(out, strings.Join(path, ".")+"=n:"+rawBits64(f))
			}
		case *ast.Ident:
			switch t.Name {
			case "true", "false":
				out = append(out, strings.Join(path, ".")+"=b:"+t.Name)
			}
		case *ast.CallExpr:
			// []string(nil)
			if _, ok := t.Fun.(*ast.ArrayType); ok {
				out = append(out, strings.Join(path, ".")+"=l:~")
			}
		case *ast.ParenExpr:
			walk(t.X, path)
		}
	}
	walk(expr, nil)
	sort.Strings(out)
	return strings.Join(out, ";"), true
}

func clGet(obs, path string) (kind, val string, ok bool) {
	for _, e := range strings.Split(obs, ";") {
		if strings.HasPrefix(e, path+"=") {
			kv := strings.SplitN(e[len(path)+1:], ":", 2)
			return kv[0], kv[1], true
		}
	}
	return "", "", false
}

// clGoproTree lays out a source tree for `gopro convert`: a two-chapter video in the directory
// itself, in src/ and in other/ (different numbers, so that the joined name says where it came
// from), and an encoder stand-in that records its arguments and creates its output.
func clGoproTree(dir string) {
	for i, d := range []string{".", "src", "other"} {
		os.MkdirAll(filepath.Join(dir, d), 0o755)
		for c, name := range []string{fmt.Sprintf("GOPR%04d.mp4", i+1), fmt.Sprintf("GP01%04d.mp4", i+1)} {
			f := filepath.Join(dir, d, name)
			os.WriteFile(f, []byte("video"), 0o644)
			mt := time.Unix(int64(1600000000+100*i+c), 0)
			os.Chtimes(f, mt, mt)
		}
	}
	os.WriteFile(filepath.Join(dir, "fake.sh"), []byte("#!/bin/sh\nfor a in \"$@\"; do printf '%s\\n' \"$a\" >> ffmpeg.log; last=\"$a\"; done\nprintf -- '--\\n' >> ffmpeg.log\n: > \"$last\"\n"), 0o755)
}

// clGoproState: what the encoder stand-in was asked to do and what the tree looks like afterwards
func clGoproState(dir string) string {
	var b strings.Builder
	log, _ := os.ReadFile(filepath.Join(dir, "ffmpeg.log"))
	for _, l := range strings.Split(string(log), "\n") {
		if strings.HasPrefix(l, os.TempDir()) {
			l = "<tmp>" // the concat list
		}
		b.WriteString(l + "|")
	}
	filepath.WalkDir(dir, func(path string, d fs.DirEntry, err error) error {
		if err != nil || d.IsDir() || !strings.HasSuffix(strings.ToLower(path), ".mp4") {
			return nil
		}
		rel, _ := filepath.Rel(dir, path)
		fi, _ := d.Info()
		fmt.Fprintf(&b, " %s@%d", rel, fi.ModTime().Unix())
		return nil
	})
	return b.String()
}

// clGoproLibrary runs the library with the option values the binary reported, in a fresh copy
// of the tree: the command must do what the library does for those values.
func clGoproLibrary(root, obs string) (state string, failed bool) {
	dir := filepath.Join(root, "lib")
	clGoproTree(dir)
	str := func(p string) string { _, v, _ := clGet(obs, p); return unhexStr(v) }
	list := func(p string) []string { _, v, _ := clGet(obs, p); return clItems(v) }
	_, ow, _ := clGet(obs, "Overwrite")
	cfg := gopro.Config{LogLevel: str("LogLevel"), SourceDir: str("SourceDir"), Binary: str("Binary"), Args: list("Args"),
		SkipNames: list("SkipNames"), OutputTemplate: str("OutputTemplate"), OutputDir: str("OutputDir"), Overwrite: ow == "true"}
	old, _ := os.Getwd()
	os.Chdir(dir)
	defer os.Chdir(old)
	p, err := gopro.NewProcessor(gopro.Cfg(cfg), gopro.Output(io.Discard))
	if err == nil {
		_, err = p.Process()
	}
	return clGoproState(dir), err != nil
}

// clPipeline: the library pipeline (decode, convert, encode) for the option values the binary
// reported as effective.
func clPipeline(obs string, input []byte) ([]byte, error) {
	str := func(p string) string { _, v, _ := clGet(obs, p); return unhexStr(v) }
	_, tagsV, _ := clGet(obs, "Tags")
	_, comp, _ := clGet(obs, "Compress")
	dec, err := trackaddict.NewDecoder(bytes.NewReader(input))
	if err != nil {
		return nil, err
	}
	sess, err := dec.Decode()
	if err != nil {
		return nil, err
	}
	var sd time.Time
	if d := str("StartDate"); d != "" {
		sd, _ = time.Parse("2006-01-02", d)
	}
	ta, err := convert.NewTrackAddict(convert.TrackOpt(str("Track")), convert.VehicleOpt(str("Vehicle")),
		convert.TagsOpt(clItems(tagsV)...), convert.NoteOpt(str("Note")), convert.StartDateOpt(sd))
	if err != nil {
		return nil, err
	}
	db, err := ta.LapTimer(sess)
	if err != nil {
		return nil, err
	}
	var buf bytes.Buffer
	var opts []laptimer.EncoderOpt
	if comp == "true" {
		opts = append(opts, laptimer.Compress())
	}
	enc, err := laptimer.NewEncoder(&buf, opts...)
	if err != nil {
		return nil, err
	}
	if err := enc.Encode(db); err != nil {
		return nil, err
	}
	return buf.Bytes(), nil
}

func clSameOutput(a, b []byte, gz bool) bool {
	if !gz {
		return bytes.Equal(a, b)
	}
	// gzip headers carry no timestamps here, but compare the plain bytes to be independent of it
	ua, ea := clGunzip(a)
	ub, eb := clGunzip(b)
	return ea == nil && eb == nil && bytes.Equal(ua, ub)
}

func clGunzip(b []byte) ([]byte, error) {
	zr, err := gzip.NewReader(bytes.NewReader(b))
	if err != nil {
		return nil, err
	}
	return io.ReadAll(zr)
}

// clGPSFile: a GoPro MP4 whose metadata track has one sample with the given GPS5 readings.
func clGPSFile(points [][2]float64) []byte {
	var vals []int64
	for _, p := range points {
		vals = append(vals, int64(math.Round(p[0]*1e7)), int64(math.Round(p[1]*1e7)), 1000, 0, 0)
	}
	payload := nest("DEVC", klv("DVID", 'L', 4, 1, beInts(4, 1)),
		nest("STRM", klv("SCAL", 'l', 4, 5, beInts(4, 10000000, 10000000, 1000, 1000, 100)),
			klv("GPS5", 'l', 20, len(points), beInts(4, vals...))))
	t := &m4Tables{ts: 1000, track: true, stsc: [][2]uint32{{1, 1}}, stts: [][2]uint32{{1, 1000}},
		sizes: []uint32{uint32(len(payload))}, co: []uint64{m4PayloadBase}, extra: 1}
	return t.file(payload)
}

func clRun(cfg *config, toks []string) string {
	bin, err := clBuild(cfg)
	if err != nil {
		return "bad build: " + strings.ReplaceAll(err.Error(), " ", "_")
	}
	cmdName := cvField(toks, "cmd")
	which := cvField(toks, "which")
	flags := clParseKVs(cvField(toks, "F"))
	conf := clParseKVs(cvField(toks, "C"))
	homeConf := clParseKVs(cvField(toks, "H"))
	iomode := cvField(toks, "io")
	var input []byte
	if in := cvField(toks, "in"); in != "-" && in != "" {
		input = []byte(unhexStr(in))
	}

	root, err := os.MkdirTemp("", "verif-cl-")
	if err != nil {
		return "bad " + err.Error()
	}
	defer os.RemoveAll(root)
	cwd, home := filepath.Join(root, "cwd"), filepath.Join(root, "home")
	os.MkdirAll(filepath.Join(cwd, "src"), 0o755)
	os.MkdirAll(home, 0o755)
	args := []string{"-v", "-v"}
	switch which {
	case "explicit":
		if cvField(toks, "cf") == "json" {
			os.WriteFile(filepath.Join(root, "my.json"), []byte(clJSON(conf)), 0o644)
			args = append(args, "--config", filepath.Join(root, "my.json"))
		} else {
			os.WriteFile(filepath.Join(root, "my.toml"), []byte(clToml(conf)), 0o644)
			args = append(args, "--config", filepath.Join(root, "my.toml"))
		}
	case "missing":
		args = append(args, "--config", filepath.Join(root, "absent.toml"))
	case "cwd":
		os.WriteFile(filepath.Join(cwd, ".tracktools.toml"), []byte(clToml(conf)), 0o644)
	case "home":
		os.WriteFile(filepath.Join(home, ".tracktools.toml"), []byte(clToml(conf)), 0o644)
	case "both":
		os.WriteFile(filepath.Join(cwd, ".tracktools.toml"), []byte(clToml(conf)), 0o644)
		os.WriteFile(filepath.Join(home, ".tracktools.toml"), []byte(clToml(homeConf)), 0o644)
	}
	args = append(args, strings.Split(cmdName, ".")...)
	for _, f := range flags {
		switch f.kind {
		case "l":
			for _, it := range clItems(f.val) {
				args = append(args, "--"+f.key+"="+it)
			}
		default:
			args = append(args, "--"+f.key+"="+unhexStr(f.val))
		}
	}
	outPath := filepath.Join(cwd, "out.hlptr")
	var points [][2]float64
	// gopro laptimes takes any number of files: half of the cases hand the readings over in one
	// file, the others in three — the readings, a file recorded fifty kilometres away, and the
	// readings again (a second session on the same track); every reading of every file counts
	var allPoints [][2]float64
	multiFile := caseHash(strings.Join(toks, " "))&1 == 1
	writeLaptimesInputs := func() {
		os.WriteFile(filepath.Join(cwd, "in.mp4"), clGPSFile(points), 0o644)
		allPoints = append([][2]float64(nil), points...)
		if !multiFile {
			return
		}
		var far [][2]float64
		for _, pt := range points {
			d := 0.5
			if pt[0] > 0 {
				d = -0.5
			}
			far = append(far, [2]float64{pt[0] + d, pt[1]})
		}
		os.WriteFile(filepath.Join(cwd, "far.mp4"), clGPSFile(far), 0o644)
		os.WriteFile(filepath.Join(cwd, "again.mp4"), clGPSFile(points), 0o644)
		allPoints = append(append(allPoints, far...), points...)
	}
	switch cmdName {
	case "convert":
		inArg, outArg := "-", "-"
		if iomode[0] == 'f' {
			os.WriteFile(filepath.Join(cwd, "in.csv"), input, 0o644)
			inArg = "in.csv"
		}
		if iomode[1] == 'f' {
			outArg = "out.hlptr"
			if len(iomode) > 2 && iomode[2] == 'x' {
				// the output file already exists and is longer than anything convert will write
				os.WriteFile(outPath, bytes.Repeat([]byte("STALE CONTENT OF AN EARLIER RUN\n"), 4000), 0o644)
			}
		}
		args = append(args, inArg, outArg)
	case "gopro.laptimes":
		// readings on a grid around the origin of the scenario
		for _, p := range strings.Split(string(input), ";") {
			var la, lo float64
			if _, err := fmt.Sscanf(p, "%g,%g", &la, &lo); err == nil {
				points = append(points, [2]float64{la, lo})
			}
		}
		writeLaptimesInputs()
		args = append(args, "in.mp4")
		if multiFile {
			args = append(args, "far.mp4", "again.mp4")
		}
	case "gopro.render":
		args = append(args, "absent.mp4", "out.png")
	case "gopro.convert":
		clGoproTree(cwd)
	}
	var stdout, stderr bytes.Buffer
	var runErr error
	run := func() bool {
		stdout.Reset()
		stderr.Reset()
		c := exec.Command(bin, args...)
		c.Dir = cwd
		c.Env = []string{"HOME=" + home, "PATH=/usr/bin:/bin", "NO_COLOR=1"}
		if tz := cvField(toks, "tz"); tz != "" {
			c.Env = append(c.Env, "TZ="+tz) // the user's time zone: no option is a local time
		}
		if cmdName == "convert" && iomode[0] == 's' {
			c.Stdin = bytes.NewReader(input) // a pipe
		}
		if cmdName == "convert" && iomode[0] == 'r' {
			// standard input redirected from a regular file (tracktools convert - out < session.csv)
			os.WriteFile(filepath.Join(cwd, "redirected.csv"), input, 0o644)
			if f, err := os.Open(filepath.Join(cwd, "redirected.csv")); err == nil {
				defer f.Close()
				c.Stdin = f
			}
		}
		c.Stdout, c.Stderr = &stdout, &stderr
		done := make(chan error, 1)
		go func() { done <- c.Run() }()
		select {
		case runErr = <-done:
			return true
		case <-time.After(60 * time.Second):
			c.Process.Kill()
			return false
		}
	}
	if !run() {
		return "hang"
	}
	if cmdName == "gopro.laptimes" {
		// second pass: now that the binary has said which start line is in effect, add readings placed
		// relative to that line (along it, beyond its ends, beside it at half and one-and-a-half
		// tolerances, and mirrored in the start point's meridian) and run again
		if obs1, ok := clObserved(stderr.String()); ok {
			num := func(p string) float64 {
				_, v, _ := clGet(obs1, p)
				b, _ := strconv.ParseUint(v, 16, 64)
				return math.Float64frombits(b)
			}
			lat, lon, brg, dist, tol := num("Start.Latitude"), num("Start.Longitude"), num("Start.Bearing"), num("Start.Distance"), num("Tolerance")
			if math.Abs(lat) < 80 && math.Abs(lon) <= 180 && dist > 0 && dist < 1000 && tol >= 0 && tol < 100 {
				points = append(points, [2]float64{lat, lon}) // a reading at the start point itself
				for _, fr := range []float64{0.35, -0.7, 0.9, 1.3, -1.6, 0.998, -0.997} {
					pla, plo, _ := directIndep(lat, lon, brg+90, fr*dist)
					mlo := 2*lon - plo
					for mlo > 180 {
						mlo -= 360
					}
					for mlo < -180 {
						mlo += 360
					}
					points = append(points, [2]float64{pla, plo}, [2]float64{pla, mlo})
					for _, side := range []float64{0.5, 1.5} {
						qla, qlo, _ := directIndep(pla, plo, brg, side*tol+0.02)
						points = append(points, [2]float64{qla, qlo})
					}
				}
				writeLaptimesInputs()
				if !run() {
					return "hang"
				}
			}
		}
	}
	exit := 0
	if runErr != nil {
		exit = 1
		if ee, ok := runErr.(*exec.ExitError); ok {
			exit = ee.ExitCode()
		}
	}
	errText := clAnsi.ReplaceAllString(stderr.String(), "")
	obs, okObs := clObserved(stderr.String())
	if !okObs {
		obs = "-"
	}
	used := "none"
	switch {
	case strings.Contains(errText, "Using default embedded config"):
		used = "embedded"
	case strings.Contains(errText, "Using config file: "):
		i := strings.Index(errText, "Using config file: ")
		line := errText[i+len("Using config file: "):]
		if j := strings.IndexByte(line, '\n'); j >= 0 {
			line = line[:j]
		}
		line = strings.TrimSpace(line)
		switch {
		case strings.HasSuffix(line, "my.toml"), strings.HasSuffix(line, "my.json"):
			used = "explicit"
		case strings.HasPrefix(line, home):
			used = "home"
		default:
			used = "cwd"
		}
	}
	msg := b01(strings.Contains(errText, "Error:"))

	extra := ""
	switch cmdName {
	case "convert":
		var got []byte
		wrote := "none"
		if iomode[1] == 'f' {
			if b, err := os.ReadFile(outPath); err == nil {
				got, wrote = b, "file"
			}
			if stdout.Len() > 0 {
				wrote += "+stdout"
			}
		} else {
			got, wrote = stdout.Bytes(), "stdout"
			if _, err := os.Stat(outPath); err == nil {
				wrote += "+file"
			}
		}
		pipe := "na"
		if okObs {
			want, perr := clPipeline(obs, input)
			_, comp, _ := clGet(obs, "Compress")
			switch {
			case perr != nil:
				pipe = "liberr"
			case exit != 0:
				pipe = "exit"
			case clSameOutput(got, want, comp == "true") && (comp == "true") == (len(got) > 1 && got[0] == 0x1f && got[1] == 0x8b):
				pipe = "same"
			default:
				pipe = "differ"
			}
		}
		extra = fmt.Sprintf(" wrote=%s pipe=%s", wrote, pipe)
	case "gopro.convert":
		gc := "na"
		if okObs {
			want, failed := clGoproLibrary(root, obs)
			got := clGoproState(cwd)
			switch {
			case failed != (exit != 0):
				gc = fmt.Sprintf("status-lib-failed-%v", failed)
			case got != want:
				gc = "differ"
				if os.Getenv("VERIF_DEBUG_CL") != "" {
					fmt.Fprintf(os.Stderr, "DEBUG got  %s\nDEBUG want %s\n", got, want)
				}
			default:
				gc = "same"
			}
		}
		extra = " gc=" + gc
	case "gopro.laptimes":
		hits := strings.Count(errText, "start line passed")
		if os.Getenv("VERIF_DEBUG_CL") != "" {
			fmt.Fprintf(os.Stderr, "DEBUG stderr:\n%s\n", errText)
		}
		want, wantHi := -1, -1
		octant := ""
		if okObs {
			num := func(p string) float64 {
				_, v, _ := clGet(obs, p)
				b, _ := strconv.ParseUint(v, 16, 64)
				return math.Float64frombits(b)
			}
			lat, lon, brg, dist, tol := num("Start.Latitude"), num("Start.Longitude"), num("Start.Bearing"), num("Start.Distance"), num("Tolerance")
			lat1, lon1, slip1 := directIndep(lat, lon, brg+90, dist)
			lat2, lon2, slip2 := directIndep(lat, lon, brg-90, dist)
			if slip1 || slip2 {
				octant = " octant=1"
			}
			// readings within a guard band of the tolerance boundary (3% + 2 cm: the end points of the
			// line are themselves computed, and the file stores 1e-7 degree integers) may go either way
			// (judged with the harness's own distance to a great-circle segment — 3-D unit vectors,
			// gnomonic foot point — not with the repository's OnLine, which the command itself uses)
			tolLo, tolHi := math.Max(0, tol*0.97-0.02), tol*1.03+0.02
			want, wantHi = 0, 0
			for _, pt := range allPoints {
				la, lo := math.Round(pt[0]*1e7)/1e7, math.Round(pt[1]*1e7)/1e7
				d := gcSegDistLL(la, lo, lat1, lon1, lat2, lon2, 6378137)
				if tol > 0 && d <= tolLo {
					want++
				}
				if d <= tolHi {
					wantHi++
				}
				if os.Getenv("VERIF_DEBUG_CL") != "" {
					fmt.Fprintf(os.Stderr, "DEBUG pt %.7f %.7f d=%v lo=%v hi=%v\n", la, lo, d, tolLo, tolHi)
				}
			}
		}
		extra = fmt.Sprintf(" hits=%d want=%d wanthi=%d%s", hits, want, wantHi, octant)
	}
	return fmt.Sprintf("exit=%d used=%s msg=%s obs=%s%s", exit, used, msg, obs, extra)
}

// directIndep: the end of a geodesic of length d from (lat, lon) at azimuth az, for the start line
// the laptimes command is judged against. It comes from the geodesic library, but not at the
// arguments where that library is known to slip (an azimuth that is an odd multiple of 45 degrees,
// a latitude of exactly 45 degrees: recorded findings): those are moved by 1e-7 degrees, which moves
// the end of a line of up to a kilometre by less than two micrometres; and the result is checked
// against a plain spherical offset to within one percent of the length, so that the oracle does not
// rest on the library's word alone.
func directIndep(lat, lon, az, d float64) (float64, float64, bool) {
	slip := false
	if m := math.Mod(math.Abs(az), 90); m == 45 {
		az += 1e-7
		slip = true
	}
	if math.Abs(lat) == 45 {
		lat += 1e-9
		slip = true
	}
	var la, lo float64
	geodesic.WGS84.Direct(lat, lon, az, d, &la, &lo, nil)
	sl, so := offsetPoint(lat, lon, az, d, 6371008.8)
	if gcDistLL(la, lo, sl, so)*6371008.8 > 0.01*math.Abs(d)+0.01 {
		la, lo = sl, so // (never seen; keeps the oracle honest if the library slips elsewhere)
	}
	return la, lo, slip
}

func execCL(cfg *config, op string) string {
	toks := strings.Fields(op)
	if toks[0] != "cl" {
		return "bad"
	}
	var out string
	cls, _ := classify(func() error { out = clRun(cfg, toks); return nil })
	if cls == "panic" {
		return "panic"
	}
	return out
}

// ---- generator --------------------------------------------------------------------------------

type clOpt struct {
	flag string // "" = no flag for this option
	path string // config path below the section, lower-case
	kind string
}

var clCommands = map[string][]clOpt{
	"convert": {
		{"decoder", "decoder", "s"}, {"encoder", "encoder", "s"}, {"track", "track", "s"}, {"vehicle", "vehicle", "s"},
		{"tags", "tags", "l"}, {"note", "note", "s"}, {"compress", "compress", "b"}, {"start-date", "startdate", "d"},
	},
	"gopro.convert": {
		{"source-dir", "sourcedir", "s"}, {"output-dir", "outputdir", "s"}, {"", "binary", "s"}, {"", "loglevel", "s"},
		{"", "outputtemplate", "s"}, {"", "overwrite", "b"}, {"", "skipnames", "l"}, {"", "args", "l"},
	},
	"gopro.laptimes": {
		{"latitude", "start.latitude", "f"}, {"longitude", "start.longitude", "f"}, {"bearing", "start.bearing", "f"},
		{"distance", "start.distance", "f"}, {"tolerance", "tolerance", "f"},
	},
	"gopro.render": {
		{"min-good", "mingood", "i"}, {"min-dop", "mindop", "f"}, {"latitude", "start.latitude", "f"}, {"longitude", "start.longitude", "f"},
		{"bearing", "start.bearing", "f"}, {"distance", "start.distance", "f"}, {"", "width", "i"}, {"", "height", "i"},
	},
}

func clValue(r *rng, cmd string, o clOpt, src int) string {
	switch o.kind {
	case "s":
		switch o.path {
		case "decoder":
			// (the name of a format that exists, but not in this role, is as unknown as any other)
			return hexStr(pick(r, []string{"trackaddict", "trackaddict", "trackaddict", "trackaddict", "nope", "", "laptimer"}))
		case "encoder":
			return hexStr(pick(r, []string{"laptimer", "laptimer", "laptimer", "laptimer", "gpx", "", "trackaddict"}))
		case "sourcedir", "outputdir":
			return hexStr(pick(r, []string{"src", ".", "other", ""}))
		case "binary":
			return hexStr(pick(r, []string{"ffmpeg", "true", "./fake.sh", "./fake.sh", "./fake.sh"}))
		case "loglevel":
			return hexStr(pick(r, []string{"warn", "debug", "info"}))
		case "outputtemplate":
			return hexStr(pick(r, []string{"{{.Name}}-JOINED{{.Ext}}", "x{{.Ext}}"}))
		}
		// (values are taken literally: white space at either end, or nothing but white space, included)
		return hexStr(pick(r, []string{"", "Goodwood", "Brands <Hatch>", "a b", `q"t`, "ü", " Cup Car", "Works Car #7 ", " ", "two\nlines\n", fmt.Sprintf("v%d-%d", src, r.intn(100))}))
	case "b":
		return hexStr(pick(r, []string{"true", "false"}))
	case "i":
		return hexStr(strconv.Itoa(r.intn(5000)))
	case "f":
		switch {
		case strings.HasSuffix(o.path, "latitude"):
			if r.chance(1, 6) {
				// a circuit near the equator (Sepang, Singapore, Interlagos): the ellipsoid and a sphere
				// of the equatorial radius disagree most there, by two thirds of a percent north-south
				return hexStr(pick(r, []string{"2.76", "1.2914", "-23.7014", "0.0001"}))
			}
			return hexStr(strconv.FormatFloat(50.85+float64(r.intn(5))*0.0001, 'f', -1, 64))
		case strings.HasSuffix(o.path, "longitude"):
			if r.chance(1, 8) {
				// a circuit on the 180th meridian (Fiji) is a circuit like any other
				return hexStr(pick(r, []string{"180", "-180", "179.99996", "-179.99995"}))
			}
			return hexStr(strconv.FormatFloat(-0.75-float64(r.intn(5))*0.0001, 'f', -1, 64))
		case strings.HasSuffix(o.path, "bearing"):
			// any real number is a bearing (45 and its odd multiples: recorded finding, the geodesic library)
			return hexStr(pick(r, []string{"0", "90", "45.5", "180", "271", "-30", "-150", "-90", "400", "30", "60", "45", "135", "-45"}))
		case strings.HasSuffix(o.path, "distance"):
			return hexStr(pick(r, []string{"10", "5", "25.5", "0"}))
		}
		return hexStr(pick(r, []string{"1", "2", "0.5", "7", "12.25", "0"}))
	case "l":
		n := r.intn(3)
		if n == 0 {
			return "~"
		}
		var items []string
		for k := 0; k < n; k++ {
			// list values are taken literally, one per flag: commas, quotes and the empty string included
			items = append(items, hexStr(pick(r, []string{"Me", "Other", "a b", "wet", fmt.Sprintf("t%d", src), `"wet"`, `5" exhaust`, "a,b", ""})))
		}
		return strings.Join(items, "+")
	case "d":
		return hexStr(pick(r, []string{"2022-06-10", "2021-12-31", "2024-02-29", ""}))
	}
	return hexStr("")
}

func clGenConf(r *rng, cmd string, src int, s *sink) string {
	var kvs []string
	for _, o := range clCommands[cmd] {
		stated := r.chance(3, 5)
		if o.path == "decoder" || o.path == "encoder" || cmd == "gopro.laptimes" {
			stated = r.chance(9, 10)
		}
		if stated {
			kind := o.kind
			val := clValue(r, cmd, o, src)
			if kind == "f" && r.chance(1, 3) {
				kind, val = "i", hexStr(strconv.Itoa(r.intn(20))) // TOML integer into a float field
			}
			kvs = append(kvs, cmd+"."+o.path+":"+kind+":"+val)
		}
	}
	// noise: another command's section, an unknown key, the root section
	if r.chance(1, 2) {
		kvs = append(kvs, "root.verbose:i:"+hexStr("0"))
	}
	if r.chance(1, 3) {
		kvs = append(kvs, cmd+".unknownkey:s:"+hexStr("x"))
	}
	if r.chance(1, 3) && cmd != "convert" {
		kvs = append(kvs, "convert.track:s:"+hexStr("other-section"))
	}
	if len(kvs) == 0 {
		return "~"
	}
	return strings.Join(kvs, ",")
}

func genCL(cfg *config, r *rng, i int, s *sink) string {
	cmd := pick(r, []string{"convert", "convert", "gopro.laptimes", "gopro.laptimes", "gopro.render", "gopro.convert"})
	if cfg.prop == "C17" {
		cmd = "gopro.laptimes" // the detector as the command uses it: every reading of a file against the effective line
	}
	which := pick(r, []string{"explicit", "explicit", "cwd", "home", "both", "none", "missing"})
	if cfg.prop == "C12" {
		// the start date as the command line hands it to the converter
		cmd = "convert"
		which = pick(r, []string{"explicit", "cwd", "none"})
	}
	s.count("cl.cmd." + cmd)
	s.count("cl.which." + which)
	var fl []string
	for _, o := range clCommands[cmd] {
		if o.flag != "" && (r.chance(2, 5) || (cfg.prop == "C12" && o.flag == "start-date" && r.chance(2, 3))) {
			v := clValue(r, cmd, o, 9)
			if cfg.prop == "C12" && (o.flag == "decoder" || o.flag == "encoder") {
				continue
			}
			if o.kind == "l" && v == "~" {
				continue
			}
			fl = append(fl, o.flag+":"+o.kind+":"+v)
			s.count("cl.flag.given")
		}
	}
	f := "~"
	if len(fl) > 0 {
		f = strings.Join(fl, ",")
	}
	c, h := "~", "~"
	if which != "none" && which != "missing" {
		c = clGenConf(r, cmd, 1, s)
		if r.chance(1, 12) {
			c = pick(r, []string{"~", "root.verbose:i:" + hexStr("0"), "convert.unknownkey:s:" + hexStr("x")}) // a file that sets nothing (for this command)
		}
	}
	if which == "both" {
		h = clGenConf(r, cmd, 2, s)
	}
	in := "-"
	io := pick(r, []string{"ff", "fo", "sf", "so", "rf", "ro"})
	if io[1] == 'f' && r.chance(1, 2) {
		io += "x" // over an existing, longer file
	}
	switch cmd {
	case "convert":
		text, _ := cvLog(r, s, 5, 4, false, 1653983971) // up to six laps: three and more give a database with laps in it
		if r.chance(1, 4) {
			// data that cannot be decoded: the failure happens after the output has been opened
			text = pick(r, []string{
				"this is not a log\n1,2\n",
				"Time,UTC Time,Lap,GPS_Update,Latitude,Longitude\n0.010,1653983971.010,0,1,fifty,-0.7\n",
				"Time,UTC Time,Lap,GPS_Update,Latitude,Longitude,Bogus Column\n0.010,1653983971.010,0,1,50.1,-0.7,1\n",
				"Time,UTC Time,Lap,GPS_Update,Latitude,Longitude\n0.010,1653983971.010,0,1,50.1,-0.7\n# Lap x: 00:01:02.003\n",
				"Time,UTC Time,Lap,GPS_Update,Latitude,Longitude\n0.010,1653983971.010,0,1,50.1\n",
			})
		}
		in = hexStr(text)
	case "gopro.laptimes":
		var pts []string
		for k := 0; k < 1+r.intn(6); k++ {
			pts = append(pts, fmt.Sprintf("%.7f,%.7f", 50.85+float64(r.intn(50))*0.00001, -0.75-float64(r.intn(50))*0.00001))
		}
		// readings at (and a few centimetres from) every start point the flags or the config name:
		// with an effective tolerance of 0 none of them may be reported
		for _, src := range []string{f, c} {
			var la, lo string
			for _, kv := range clParseKVs(src) {
				if strings.HasSuffix(kv.key, "latitude") {
					la = unhexStr(kv.val)
				}
				if strings.HasSuffix(kv.key, "longitude") {
					lo = unhexStr(kv.val)
				}
			}
			if la != "" && lo != "" {
				laf, _ := strconv.ParseFloat(la, 64)
				lof, _ := strconv.ParseFloat(lo, 64)
				pts = append(pts, fmt.Sprintf("%.7f,%.7f", laf, lof), fmt.Sprintf("%.7f,%.7f", laf+0.0000004, lof))
				// readings along the start line itself, away from its centre, and their mirror images in
				// the start point's meridian (for an oblique bearing those are off the line)
				for _, kv2 := range append(clParseKVs(f), clParseKVs(c)...) {
					if !strings.HasSuffix(kv2.key, "bearing") {
						continue
					}
					brg, err := strconv.ParseFloat(unhexStr(kv2.val), 64)
					if err != nil {
						continue
					}
					for _, d := range []float64{3, -4, 8} {
						pla, plo, _ := directIndep(laf, lof, brg+90, d)
						mlo := 2*lof - plo
						for mlo > 180 {
							mlo -= 360
						}
						for mlo < -180 {
							mlo += 360
						}
						pts = append(pts, fmt.Sprintf("%.7f,%.7f", pla, plo), fmt.Sprintf("%.7f,%.7f", pla, mlo))
					}
				}
			}
		}
		in = hexStr(strings.Join(pts, ";"))
	}
	if which == "explicit" && r.chance(1, 4) {
		io += " cf=json" // the same settings as a JSON document
	}
	tz := ""
	if r.chance(1, 2) || cfg.prop == "C12" {
		tz = " tz=" + pick(r, []string{"America/New_York", "Asia/Kolkata", "Pacific/Auckland", "America/Los_Angeles", "Europe/London"})
	}
	return fmt.Sprintf("cl cmd=%s which=%s F=%s C=%s H=%s io=%s%s in=%s", cmd, which, f, c, h, io, tz, in)
}

func corpusCL(cfg *config) []string {
	gc := "gopro.convert.binary:s:" + hexStr("./fake.sh") + ",gopro.convert.args:l:" + strings.Join([]string{hexStr("-y"), hexStr("-i"), hexStr(""), hexStr("-c"), hexStr("copy")}, "+") +
		",gopro.convert.outputtemplate:s:" + hexStr("{{.Name}}-JOINED{{.Ext}}") + ",gopro.convert.loglevel:s:" + hexStr("info")
	return []string{
		// gopro convert acts on the effective directories: no output directory = next to the sources,
		// an empty --output-dir likewise (and beats the file), an empty --source-dir is a failure
		"cl cmd=gopro.convert which=explicit F=~ C=" + gc + ",gopro.convert.sourcedir:s:" + hexStr("src") + " H=~ io=ff in=-",
		"cl cmd=gopro.convert which=explicit F=output-dir:s:- C=" + gc + ",gopro.convert.sourcedir:s:" + hexStr("src") + ",gopro.convert.outputdir:s:" + hexStr("other") + " H=~ io=ff in=-",
		"cl cmd=gopro.convert which=explicit F=source-dir:s:" + hexStr("other") + " C=" + gc + ",gopro.convert.sourcedir:s:" + hexStr("src") + ",gopro.convert.outputdir:s:" + hexStr("src") + " H=~ io=ff in=-",
		"cl cmd=gopro.convert which=explicit F=source-dir:s:- C=" + gc + ",gopro.convert.sourcedir:s:" + hexStr("src") + " H=~ io=ff in=-",
		"cl cmd=gopro.convert which=cwd F=~ C=" + gc + ",gopro.convert.sourcedir:s:" + hexStr(".") + ",gopro.convert.outputdir:s:" + hexStr("") + " H=~ io=ff in=-",
		// the start-line flags against a config file that states the Start table (was: config won)
		"cl cmd=gopro.laptimes which=explicit F=latitude:f:" + hexStr("50.8501") + ",bearing:f:" + hexStr("90") +
			" C=gopro.laptimes.start.latitude:f:" + hexStr("1.5") + ",gopro.laptimes.start.longitude:f:" + hexStr("-0.7501") +
			",gopro.laptimes.start.bearing:f:" + hexStr("3.5") + ",gopro.laptimes.start.distance:i:" + hexStr("10") + ",gopro.laptimes.tolerance:i:" + hexStr("2") +
			" H=~ io=ff in=" + hexStr("50.8501000,-0.7501000;50.8502000,-0.7501000"),
		// a start line on the 180th meridian (readings either side of it are added by the second pass)
		"cl cmd=gopro.laptimes which=explicit F=~ C=gopro.laptimes.start.latitude:f:" + hexStr("-16.8") + ",gopro.laptimes.start.longitude:f:" + hexStr("180.0") +
			",gopro.laptimes.start.bearing:f:" + hexStr("0") + ",gopro.laptimes.start.distance:i:" + hexStr("10") + ",gopro.laptimes.tolerance:f:" + hexStr("0.5") +
			" H=~ io=ff in=" + hexStr("-16.8000000,180.0000000;-16.8000000,-179.9999400"),
		"cl cmd=gopro.laptimes which=explicit F=longitude:f:" + hexStr("-180") + " C=gopro.laptimes.start.latitude:f:" + hexStr("-16.8") + ",gopro.laptimes.start.longitude:f:" + hexStr("0.0") +
			",gopro.laptimes.start.bearing:f:" + hexStr("0") + ",gopro.laptimes.start.distance:i:" + hexStr("10") + ",gopro.laptimes.tolerance:f:" + hexStr("0.5") +
			" H=~ io=ff in=" + hexStr("-16.8000000,180.0000000;-16.8000000,179.9999400"),
		"cl cmd=gopro.laptimes which=explicit F=~ C=gopro.laptimes.start.latitude:f:" + hexStr("-16.8") + ",gopro.laptimes.start.longitude:f:" + hexStr("179.99996") +
			",gopro.laptimes.start.bearing:f:" + hexStr("0") + ",gopro.laptimes.start.distance:i:" + hexStr("10") + ",gopro.laptimes.tolerance:f:" + hexStr("0.5") +
			" H=~ io=ff in=" + hexStr("-16.8000000,179.9999600;-16.8000000,-179.9999800"),
		// a start date is a calendar day, whatever the user's time zone; a log with timed laps
		"cl cmd=convert which=none F=start-date:d:" + hexStr("2022-06-10") + " C=~ H=~ io=fo tz=America/New_York in=" + hexStr(cvDecoy),
		"cl cmd=convert which=none F=start-date:d:" + hexStr("2022-06-10") + ",vehicle:s:" + hexStr(" Cup Car ") + " C=~ H=~ io=so tz=Pacific/Auckland in=" + hexStr(cvDecoy),
		// a config file found by the search that sets nothing: the options keep their built-in defaults
		"cl cmd=convert which=cwd F=decoder:s:" + hexStr("trackaddict") + ",encoder:s:" + hexStr("laptimer") + " C=~ H=~ io=fo in=" + hexStr(cvDecoy),
		// names of formats that exist, in the role they cannot play
		"cl cmd=convert which=cwd F=decoder:s:" + hexStr("laptimer") + ",encoder:s:" + hexStr("laptimer") + " C=~ H=~ io=fo in=" + hexStr(cvDecoy),
		"cl cmd=convert which=cwd F=decoder:s:" + hexStr("trackaddict") + ",encoder:s:" + hexStr("trackaddict") + " C=~ H=~ io=ff in=" + hexStr(cvDecoy),
		"cl cmd=convert which=home F=~ C=~ H=~ io=fo in=" + hexStr(cvDecoy),
		"cl cmd=gopro.laptimes which=cwd F=~ C=root.verbose:i:" + hexStr("0") + " H=~ io=ff in=" + hexStr("0.0000000,0.0000000;0.0000100,0.0000000"),
		// negative bearings are bearings (-30 is 330, not 30), from the file and from the flag
		"cl cmd=gopro.laptimes which=explicit F=~ C=gopro.laptimes.start.latitude:f:" + hexStr("50.857952") + ",gopro.laptimes.start.longitude:f:" + hexStr("-0.752617") +
			",gopro.laptimes.start.bearing:f:" + hexStr("-30") + ",gopro.laptimes.start.distance:i:" + hexStr("10") + ",gopro.laptimes.tolerance:f:" + hexStr("0.5") +
			" H=~ io=ff in=" + hexStr("50.8579520,-0.7526170"),
		"cl cmd=gopro.laptimes which=explicit F=bearing:f:" + hexStr("-150") + " C=gopro.laptimes.start.latitude:f:" + hexStr("50.857952") + ",gopro.laptimes.start.longitude:f:" + hexStr("-0.752617") +
			",gopro.laptimes.start.bearing:f:" + hexStr("0") + ",gopro.laptimes.start.distance:i:" + hexStr("10") + ",gopro.laptimes.tolerance:f:" + hexStr("0.5") +
			" H=~ io=ff in=" + hexStr("50.8579520,-0.7526170"),
		// recorded finding: a start line at a bearing of 45 degrees (its ends lie at azimuths 135 and -45)
		"cl cmd=gopro.laptimes which=explicit F=~ C=gopro.laptimes.start.latitude:f:" + hexStr("50.8580") + ",gopro.laptimes.start.longitude:f:" + hexStr("-0.7526") +
			",gopro.laptimes.start.bearing:f:" + hexStr("45") + ",gopro.laptimes.start.distance:i:" + hexStr("10") + ",gopro.laptimes.tolerance:f:" + hexStr("0.5") +
			" H=~ io=ff in=" + hexStr("50.8580000,-0.7526000"),
		// the built-in start line (0, 0) with a reading exactly on it
		"cl cmd=gopro.laptimes which=none F=~ C=~ H=~ io=ff in=" + hexStr("0.0000000,0.0000000;0.0000100,0.0000100"),
		// the settings as a JSON document given with --config
		"cl cmd=convert which=explicit F=note:s:- C=convert.decoder:s:" + hexStr("trackaddict") + ",convert.encoder:s:" + hexStr("laptimer") + ",convert.track:s:" + hexStr("FromJSON") +
			",convert.note:s:" + hexStr("a note") + ",convert.compress:b:" + hexStr("true") + " H=~ io=so cf=json in=" + hexStr("Time,UTC Time,Lap,GPS_Update,Latitude,Longitude\n0.010,1653983971.010,0,1,50.1,-0.7\n"),
		// and against the embedded default (no config file anywhere)
		"cl cmd=gopro.render which=none F=distance:f:" + hexStr("25.5") + " C=~ H=~ io=ff in=-",
		// an empty flag value beats the config file
		"cl cmd=convert which=cwd F=track:s:- C=convert.decoder:s:" + hexStr("trackaddict") + ",convert.encoder:s:" + hexStr("laptimer") + ",convert.track:s:" + hexStr("FromConfig") +
			" H=~ io=so in=" + hexStr("Time,UTC Time,Lap,GPS_Update,Latitude,Longitude\n0.010,1653983971.010,0,1,50.1,-0.7\n"),
		// undecodable data with every combination of input and output target: always a failure
		"cl cmd=convert which=none F=~ C=~ H=~ io=ff in=" + hexStr("Time,UTC Time,Lap,GPS_Update,Latitude,Longitude\n0.010,1653983971.010,0,1,fifty,-0.7\n"),
		"cl cmd=convert which=none F=~ C=~ H=~ io=sf in=" + hexStr("Time,UTC Time,Lap,GPS_Update,Latitude,Longitude\n0.010,1653983971.010,0,1,fifty,-0.7\n"),
		"cl cmd=convert which=none F=~ C=~ H=~ io=so in=" + hexStr("Time,UTC Time,Lap,GPS_Update,Latitude,Longitude,Bogus\n0.010,1653983971.010,0,1,50.1,-0.7,1\n"),
		"cl cmd=convert which=none F=~ C=~ H=~ io=ffx in=" + hexStr("Time,UTC Time,Lap,GPS_Update,Latitude,Longitude\n0.010,1653983971.010,0,1,50.1,-0.7\n# Lap x: 00:01:02.003\n"),
		// standard input redirected from a regular file, to standard output and to a named file
		"cl cmd=convert which=none F=~ C=~ H=~ io=ro in=" + hexStr("Time,UTC Time,Lap,GPS_Update,Latitude,Longitude\n0.010,1653983971.010,0,1,50.1,-0.7\n"),
		"cl cmd=convert which=none F=compress:b:" + hexStr("true") + " C=~ H=~ io=rf in=" + hexStr("Time,UTC Time,Lap,GPS_Update,Latitude,Longitude\n0.010,1653983971.010,0,1,50.1,-0.7\n"),
		// the named output file exists already and is longer than the new document
		"cl cmd=convert which=none F=~ C=~ H=~ io=ffx in=" + hexStr("Time,UTC Time,Lap,GPS_Update,Latitude,Longitude\n0.010,1653983971.010,0,1,50.1,-0.7\n"),
		"cl cmd=convert which=none F=compress:b:" + hexStr("true") + " C=~ H=~ io=sfx in=" + hexStr("Time,UTC Time,Lap,GPS_Update,Latitude,Longitude\n0.010,1653983971.010,0,1,50.1,-0.7\n"),
	}
}
