module verifharness

go 1.22.0

require (
	github.com/Eyevinn/mp4ff v0.47.0
	github.com/stevenh/tracktools v0.0.0
	github.com/tidwall/geodesic v1.52.4
)

require (
	github.com/mattn/go-colorable v0.1.14 // indirect
	github.com/mattn/go-isatty v0.0.20 // indirect
	github.com/rs/zerolog v1.33.0 // indirect
	golang.org/x/sys v0.29.0 // indirect
)

require (
	github.com/pelletier/go-toml/v2 v2.2.3
	golang.org/x/text v0.21.0
	gonum.org/v1/gonum v0.15.1
)

replace github.com/stevenh/tracktools => /repo

replace github.com/tidwall/geodesic => github.com/stevenh/geodesic v0.3.6-0.20220704191314-6615b5611b07
