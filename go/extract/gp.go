package main

import (
	"fmt"
	"go/ast"
	"go/token"
	"path/filepath"
	"regexp/syntax"
	"strconv"
	"strings"
	"unicode"
)

func init() {
	generators = append(generators, generator{name: "GP", run: genGP, stub: gpStub})
}

const gpPrelude = `import TrackVerif.Common.GenTypes
namespace TrackVerif.Gen.GP
open TrackVerif.Gen
`

const gpStub = gpPrelude + `def extractOk : Bool := false
def matchers : List (String × List RePattern) := []
def iidxInit : Int := 0
end TrackVerif.Gen.GP
`

type rePos struct {
	ranges [][2]rune
	group  int
}

// flatten turns an anchored, fixed-length regexp into position classes.
func flatten(re *syntax.Regexp, group int, out *[]rePos, begin, end *bool, first *bool) error {
	switch re.Op {
	case syntax.OpEmptyMatch:
		return nil
	case syntax.OpBeginText:
		if len(*out) != 0 {
			return fmt.Errorf("^ not at the start")
		}
		*begin = true
		return nil
	case syntax.OpEndText:
		*end = true
		return nil
	case syntax.OpConcat:
		for _, s := range re.Sub {
			if *end {
				return fmt.Errorf("$ not at the end")
			}
			if err := flatten(s, group, out, begin, end, first); err != nil {
				return err
			}
		}
		return nil
	case syntax.OpCapture:
		if group != 0 {
			return fmt.Errorf("nested capture")
		}
		return flatten(re.Sub[0], re.Cap, out, begin, end, first)
	case syntax.OpLiteral:
		for _, r := range re.Rune {
			p := rePos{group: group}
			if re.Flags&syntax.FoldCase != 0 {
				// the orbit of r under simple case folding
				seen := map[rune]bool{}
				for c := r; !seen[c]; c = unicode.SimpleFold(c) {
					seen[c] = true
					p.ranges = append(p.ranges, [2]rune{c, c})
				}
			} else {
				p.ranges = [][2]rune{{r, r}}
			}
			sortRanges(p.ranges)
			*out = append(*out, p)
		}
		return nil
	case syntax.OpCharClass:
		p := rePos{group: group}
		for i := 0; i+1 < len(re.Rune); i += 2 {
			p.ranges = append(p.ranges, [2]rune{re.Rune[i], re.Rune[i+1]})
		}
		*out = append(*out, p)
		return nil
	case syntax.OpAnyCharNotNL:
		*out = append(*out, rePos{group: group, ranges: [][2]rune{{0, '\n' - 1}, {'\n' + 1, unicode.MaxRune}}})
		return nil
	case syntax.OpAnyChar:
		*out = append(*out, rePos{group: group, ranges: [][2]rune{{0, unicode.MaxRune}}})
		return nil
	case syntax.OpRepeat:
		if re.Min != re.Max {
			return fmt.Errorf("variable-length repeat {%d,%d}", re.Min, re.Max)
		}
		for i := 0; i < re.Min; i++ {
			if err := flatten(re.Sub[0], group, out, begin, end, first); err != nil {
				return err
			}
		}
		return nil
	}
	return fmt.Errorf("unsupported regexp operator %v", re.Op)
}

func sortRanges(rs [][2]rune) {
	for i := 1; i < len(rs); i++ {
		for j := i; j > 0 && rs[j][0] < rs[j-1][0]; j-- {
			rs[j], rs[j-1] = rs[j-1], rs[j]
		}
	}
}

func leanPattern(src string) (string, error) {
	re, err := syntax.Parse(src, syntax.Perl)
	if err != nil {
		return "", err
	}
	var pos []rePos
	var begin, end, first bool
	if err := flatten(re, 0, &pos, &begin, &end, &first); err != nil {
		return "", fmt.Errorf("%q: %w", src, err)
	}
	var ps []string
	for _, p := range pos {
		var rs []string
		for _, r := range p.ranges {
			rs = append(rs, fmt.Sprintf("(%d, %d)", r[0], r[1]))
		}
		ps = append(ps, fmt.Sprintf("⟨[%s], %d⟩", strings.Join(rs, ", "), p.group))
	}
	return fmt.Sprintf("⟨%s, %v, %v, %d, [%s]⟩", leanStr(src), begin, end, re.MaxCap(), strings.Join(ps, ", ")), nil
}

func genGP(repo string) (string, error) {
	p, err := loadDir(filepath.Join(repo, "pkg", "gopro"))
	if err != nil {
		return "", err
	}
	var b strings.Builder
	b.WriteString(gpPrelude)
	b.WriteString("def extractOk : Bool := true\n")
	// package-level `Name = NewMatcherMust("name", pat, pats...)`
	type mrow struct {
		name string
		pats []string
	}
	var rows []mrow
	for _, f := range p.files {
		for _, d := range f.Decls {
			gd, ok := d.(*ast.GenDecl)
			if !ok || gd.Tok != token.VAR {
				continue
			}
			for _, s := range gd.Specs {
				vs := s.(*ast.ValueSpec)
				for i, n := range vs.Names {
					if i >= len(vs.Values) {
						continue
					}
					ce, ok := vs.Values[i].(*ast.CallExpr)
					if !ok {
						continue
					}
					id, ok := ce.Fun.(*ast.Ident)
					if !ok || id.Name != "NewMatcherMust" {
						continue
					}
					row := mrow{name: n.Name}
					for _, a := range ce.Args[1:] {
						bl, ok := a.(*ast.BasicLit)
						if !ok {
							return "", fmt.Errorf("matcher %s: non-literal pattern", n.Name)
						}
						s, err := strconv.Unquote(bl.Value)
						if err != nil {
							return "", err
						}
						row.pats = append(row.pats, s)
					}
					rows = append(rows, row)
				}
			}
		}
	}
	if len(rows) == 0 {
		return "", fmt.Errorf("no matchers found")
	}
	// keep the order of NewProcessor's matcher list: Hero5, Hero10
	order := map[string]int{"Hero5": 0, "Hero10": 1}
	for i := 1; i < len(rows); i++ {
		for j := i; j > 0 && order[rows[j].name] < order[rows[j-1].name]; j-- {
			rows[j], rows[j-1] = rows[j-1], rows[j]
		}
	}
	b.WriteString("def matchers : List (String × List RePattern) := [\n")
	for i, r := range rows {
		var ps []string
		for _, s := range r.pats {
			lp, err := leanPattern(s)
			if err != nil {
				return "", err
			}
			ps = append(ps, "    "+lp)
		}
		sep := ","
		if i == len(rows)-1 {
			sep = ""
		}
		fmt.Fprintf(&b, "  (%s, [\n%s\n  ])%s\n", leanStr(r.name), strings.Join(ps, ",\n"), sep)
	}
	b.WriteString("]\n")

	// Config.Validate: the initial value of iidx
	funcs := p.funcs()
	iidx := "0"
	if fd, ok := funcs["Config.Validate"]; ok {
		ast.Inspect(fd.Body, func(n ast.Node) bool {
			switch s := n.(type) {
			case *ast.AssignStmt:
				if len(s.Lhs) == 1 && len(s.Rhs) == 1 {
					if id, ok := s.Lhs[0].(*ast.Ident); ok && id.Name == "iidx" && s.Tok == token.DEFINE {
						iidx = exprString(s.Rhs[0])
					}
				}
			}
			return true
		})
	} else {
		return "", fmt.Errorf("Config.Validate not found")
	}
	if _, err := strconv.Atoi(iidx); err != nil {
		return "", fmt.Errorf("iidx initial value %q", iidx)
	}
	fmt.Fprintf(&b, "def iidxInit : Int := %s\n", iidx)
	b.WriteString("end TrackVerif.Gen.GP\n")
	return b.String(), nil
}
