package main

import (
	"fmt"
	"go/ast"
	"go/token"
	"path/filepath"
	"strconv"
	"strings"
)

func init() {
	generators = append(generators, generator{
		name: "TA",
		run:  genTA,
		stub: taStub,
	})
}

const taPrelude = `import TrackVerif.Common.GenTypes
namespace TrackVerif.Gen.TA
open TrackVerif.Gen
`

const taStub = taPrelude + `def extractOk : Bool := false
def columns : List ColRow := []
def consts : List (String × DecLit) := []
def convBodies : List (String × Expr) := []
def literals : List (String × String) := []
end TrackVerif.Gen.TA
`

type taRow struct {
	header  string
	fn      string
	target  string
	kind    string
	convs   []string
	applies bool
}

func genTA(repo string) (string, error) {
	p, err := loadDir(filepath.Join(repo, "pkg", "trackaddict"))
	if err != nil {
		return "", err
	}
	funcs := p.funcs()
	cols, ok := funcs["Decoder.columns"]
	if !ok {
		return "", fmt.Errorf("Decoder.columns not found")
	}
	var sw *ast.SwitchStmt
	ast.Inspect(cols.Body, func(n ast.Node) bool {
		if s, ok := n.(*ast.SwitchStmt); ok && sw == nil {
			sw = s
		}
		return true
	})
	if sw == nil {
		return "", fmt.Errorf("columns: no switch")
	}
	var rows []taRow
	for _, st := range sw.Body.List {
		cc := st.(*ast.CaseClause)
		if cc.List == nil {
			continue // default
		}
		for _, le := range cc.List {
			bl, ok := le.(*ast.BasicLit)
			if !ok || bl.Kind != token.STRING {
				return "", fmt.Errorf("columns: non-literal case")
			}
			hdr, _ := strconv.Unquote(bl.Value)
			row, err := taCase(hdr, cc.Body, funcs)
			if err != nil {
				return "", fmt.Errorf("column %q: %w", hdr, err)
			}
			rows = append(rows, row)
		}
	}

	var b strings.Builder
	b.WriteString(taPrelude)
	b.WriteString("def extractOk : Bool := true\n")
	b.WriteString("def columns : List ColRow := [\n")
	for i, r := range rows {
		sep := ","
		if i == len(rows)-1 {
			sep = ""
		}
		fmt.Fprintf(&b, "  ⟨%s, %s, %s, %s, %v⟩%s\n", leanStr(r.header), leanStr(r.target), leanStr(r.kind), leanStrList(r.convs), r.applies, sep)
	}
	b.WriteString("]\n")

	// numeric constants of units.go
	lits := p.valueLits()
	b.WriteString("def consts : List (String × DecLit) := [\n")
	var cl []string
	for _, n := range []string{"m2km", "ft2m", "psi2kpa", "km2m", "m2ft", "kpa2psi"} {
		if l, ok := lits[n]; ok {
			d, err := decLit(l.Value)
			if err != nil {
				return "", fmt.Errorf("const %s: %w", n, err)
			}
			cl = append(cl, fmt.Sprintf("  (%s, %s)", leanStr(n), d))
		}
	}
	b.WriteString(strings.Join(cl, ",\n"))
	b.WriteString("\n]\n")

	// converter bodies
	b.WriteString("def convBodies : List (String × Expr) := [\n")
	var bodies []string
	for _, n := range []string{"celsius2Fahrenheit", "fahrenheit2Celsius", "feet2Meters", "meters2Feet", "kilometers2Miles", "miles2Kilometers", "kpa2Psi", "psi2Kpa"} {
		fd, ok := funcs[n]
		if !ok {
			continue
		}
		e, err := convBody(fd)
		if err != nil {
			return "", fmt.Errorf("converter %s: %w", n, err)
		}
		bodies = append(bodies, fmt.Sprintf("  (%s, %s)", leanStr(n), e))
	}
	b.WriteString(strings.Join(bodies, ",\n"))
	b.WriteString("\n]\n")

	// string literals that drive parsing (format strings, prefixes, regex)
	var litRows []string
	addLits := func(fn string) {
		fd, ok := funcs[fn]
		if !ok {
			return
		}
		i := 0
		ast.Inspect(fd.Body, func(n ast.Node) bool {
			if bl, ok := n.(*ast.BasicLit); ok && bl.Kind == token.STRING {
				s, _ := strconv.Unquote(bl.Value)
				if strings.Contains(s, "%q") || strings.Contains(s, "%w") || strings.HasPrefix(s, "unexpected") {
					return true // error-message text is not behaviour
				}
				litRows = append(litRows, fmt.Sprintf("  (%s, %s)", leanStr(fmt.Sprintf("%s#%d", fn, i)), leanStr(s)))
				i++
			}
			return true
		})
	}
	for _, fn := range []string{"parseDuration", "parseRecordTime", "parseLapDuration", "Decoder.parseMetadata"} {
		addLits(fn)
	}
	if l, ok := findRegexLit(p, "endpointRe"); ok {
		litRows = append(litRows, fmt.Sprintf("  (%s, %s)", leanStr("endpointRe"), leanStr(l)))
	}
	b.WriteString("def literals : List (String × String) := [\n")
	b.WriteString(strings.Join(litRows, ",\n"))
	b.WriteString("\n]\n")
	b.WriteString("end TrackVerif.Gen.TA\n")
	return b.String(), nil
}

func findRegexLit(p *pkgFiles, name string) (string, bool) {
	for _, f := range p.files {
		for _, d := range f.Decls {
			gd, ok := d.(*ast.GenDecl)
			if !ok || gd.Tok != token.VAR {
				continue
			}
			for _, s := range gd.Specs {
				vs := s.(*ast.ValueSpec)
				for i, n := range vs.Names {
					if n.Name != name || i >= len(vs.Values) {
						continue
					}
					if ce, ok := vs.Values[i].(*ast.CallExpr); ok && len(ce.Args) == 1 {
						if bl, ok := ce.Args[0].(*ast.BasicLit); ok {
							s, err := strconv.Unquote(bl.Value)
							return s, err == nil
						}
					}
				}
			}
		}
	}
	return "", false
}

// decLit renders a Go numeric literal as a Lean `DecLit` (mantissa, decimal places).
func decLit(s string) (string, error) {
	s = strings.ReplaceAll(s, "_", "")
	if strings.ContainsAny(s, "eExXpP") {
		return "", fmt.Errorf("unsupported literal %s", s)
	}
	ip, fp, _ := strings.Cut(s, ".")
	m := strings.TrimLeft(ip+fp, "0")
	if m == "" {
		m = "0"
	}
	return fmt.Sprintf("⟨%s, %d⟩", m, len(fp)), nil
}

// taCase analyses one `case "Header":` body of Decoder.columns.
func taCase(hdr string, body []ast.Stmt, funcs map[string]*ast.FuncDecl) (taRow, error) {
	row := taRow{header: hdr}
	var appended ast.Expr
	for _, st := range body {
		as, ok := st.(*ast.AssignStmt)
		if !ok || len(as.Rhs) != 1 {
			return row, fmt.Errorf("unexpected statement")
		}
		ce, ok := as.Rhs[0].(*ast.CallExpr)
		if !ok {
			return row, fmt.Errorf("unexpected rhs")
		}
		switch fn := ce.Fun.(type) {
		case *ast.Ident:
			switch fn.Name {
			case "converters":
				for _, a := range ce.Args {
					switch x := a.(type) {
					case *ast.Ident:
						row.convs = append(row.convs, x.Name)
					case *ast.SelectorExpr:
						row.convs = append(row.convs, "units."+x.Sel.Name)
					default:
						return row, fmt.Errorf("unexpected converter arg")
					}
				}
			case "append":
				if len(ce.Args) != 2 {
					return row, fmt.Errorf("append arity")
				}
				appended = ce.Args[1]
			default:
				return row, fmt.Errorf("unexpected call %s", fn.Name)
			}
		default:
			return row, fmt.Errorf("unexpected call")
		}
	}
	if appended == nil {
		return row, fmt.Errorf("no parser appended")
	}
	prefix := ""
	passes := false
	switch x := appended.(type) {
	case *ast.Ident:
		row.fn = x.Name
	case *ast.FuncLit:
		if len(x.Body.List) != 1 {
			return row, fmt.Errorf("closure body")
		}
		rs, ok := x.Body.List[0].(*ast.ReturnStmt)
		if !ok || len(rs.Results) != 1 {
			return row, fmt.Errorf("closure return")
		}
		ce, ok := rs.Results[0].(*ast.CallExpr)
		if !ok {
			return row, fmt.Errorf("closure call")
		}
		id, ok := ce.Fun.(*ast.Ident)
		if !ok {
			return row, fmt.Errorf("closure callee")
		}
		row.fn = id.Name
		if len(ce.Args) < 2 {
			return row, fmt.Errorf("closure args")
		}
		switch r := ce.Args[0].(type) {
		case *ast.Ident:
		case *ast.CallExpr:
			if se, ok := r.Fun.(*ast.SelectorExpr); ok {
				prefix = strings.TrimPrefix(se.Sel.Name, "Init")
			}
		default:
			return row, fmt.Errorf("closure recv")
		}
		if v, ok := ce.Args[1].(*ast.Ident); !ok || v.Name != "value" {
			return row, fmt.Errorf("closure value arg")
		}
		if ce.Ellipsis.IsValid() && len(ce.Args) == 3 {
			if id, ok := ce.Args[2].(*ast.Ident); ok && id.Name == "funcs" {
				passes = true
			}
		}
	default:
		return row, fmt.Errorf("unexpected appended expr")
	}
	fd, ok := funcs[row.fn]
	if !ok {
		return row, fmt.Errorf("parser %s not found", row.fn)
	}
	target, kind, fwd, err := parserTarget(fd, prefix, funcs, 0)
	if err != nil {
		return row, fmt.Errorf("%s: %w", row.fn, err)
	}
	row.target = target
	row.kind = kind
	row.applies = len(row.convs) == 0 || (passes && fwd)
	return row, nil
}

var scalarKinds = map[string]string{
	"parseDuration":  "duration",
	"parseFloat64":   "float",
	"parseFloat64p":  "floatp",
	"parseBool":      "bool",
	"parseInt":       "int",
}

func selPath(e ast.Expr) (root ast.Expr, path []string) {
	for {
		se, ok := e.(*ast.SelectorExpr)
		if !ok {
			return e, path
		}
		path = append([]string{se.Sel.Name}, path...)
		e = se.X
	}
}

// parserTarget finds which field a parse function sets and with which scalar parser.
func parserTarget(fd *ast.FuncDecl, prefix string, funcs map[string]*ast.FuncDecl, depth int) (target, kind string, forwards bool, err error) {
	if depth > 3 {
		return "", "", false, fmt.Errorf("too deep")
	}
	// parameter / receiver names and their struct prefix
	rootPrefix := map[string]string{}
	addParam := func(fl *ast.FieldList) {
		if fl == nil {
			return
		}
		for _, f := range fl.List {
			tn := recvName(f.Type)
			for _, n := range f.Names {
				switch tn {
				case "Record":
					rootPrefix[n.Name] = ""
				case "OBD":
					rootPrefix[n.Name] = "OBD"
				case "GPS":
					rootPrefix[n.Name] = prefix
				case "Acceleration":
					rootPrefix[n.Name] = "Accel"
				case "Lap":
					rootPrefix[n.Name] = "Lap"
				}
			}
		}
	}
	addParam(fd.Recv)
	addParam(fd.Type.Params)

	resolve := func(lhs ast.Expr) (string, bool) {
		root, path := selPath(lhs)
		pre := ""
		switch r := root.(type) {
		case *ast.Ident:
			p, ok := rootPrefix[r.Name]
			if !ok {
				return "", false
			}
			pre = p
		case *ast.CallExpr:
			se, ok := r.Fun.(*ast.SelectorExpr)
			if !ok {
				return "", false
			}
			pre = strings.TrimPrefix(se.Sel.Name, "Init")
		default:
			return "", false
		}
		if len(path) == 0 {
			return "", false
		}
		parts := path
		if pre != "" {
			parts = append([]string{pre}, path...)
		}
		return strings.Join(parts, "."), true
	}

	var sscanf string
	ast.Inspect(fd.Body, func(n ast.Node) bool {
		ce, ok := n.(*ast.CallExpr)
		if !ok {
			return true
		}
		if se, ok := ce.Fun.(*ast.SelectorExpr); ok && se.Sel.Name == "Sscanf" && len(ce.Args) >= 2 {
			if bl, ok := ce.Args[1].(*ast.BasicLit); ok {
				sscanf, _ = strconv.Unquote(bl.Value)
			}
		}
		return true
	})

	for _, st := range fd.Body.List {
		switch s := st.(type) {
		case *ast.AssignStmt:
			if len(s.Rhs) != 1 {
				continue
			}
			ce, ok := s.Rhs[0].(*ast.CallExpr)
			if !ok {
				continue
			}
			if id, ok := ce.Fun.(*ast.Ident); ok {
				if k, ok := scalarKinds[id.Name]; ok && len(s.Lhs) == 2 {
					t, ok := resolve(s.Lhs[0])
					if !ok {
						return "", "", false, fmt.Errorf("cannot resolve target")
					}
					if len(ce.Args) < 2 {
						return "", "", false, fmt.Errorf("scalar parser arity")
					}
					if v, ok := ce.Args[1].(*ast.Ident); !ok || v.Name != "value" {
						return "", "", false, fmt.Errorf("scalar parser value arg")
					}
					return t, k, ce.Ellipsis.IsValid(), nil
				}
			}
			if sscanf != "" && len(s.Lhs) == 1 {
				if t, ok := resolve(s.Lhs[0]); ok {
					return t, "sscanf:" + sscanf + ":" + exprString(s.Rhs[0]), false, nil
				}
			}
		case *ast.ReturnStmt:
			if len(s.Results) != 1 {
				continue
			}
			ce, ok := s.Results[0].(*ast.CallExpr)
			if !ok {
				continue
			}
			se, ok := ce.Fun.(*ast.SelectorExpr)
			if !ok {
				continue
			}
			// method call on a sub-struct, e.g. r.GPS.parseLatitude(value)
			t, ok := resolve(se)
			if !ok {
				continue
			}
			parts := strings.Split(t, ".")
			meth := parts[len(parts)-1]
			sub := strings.Join(parts[:len(parts)-1], ".")
			if len(ce.Args) != 1 {
				return "", "", false, fmt.Errorf("method arity")
			}
			if v, ok := ce.Args[0].(*ast.Ident); !ok || v.Name != "value" {
				return "", "", false, fmt.Errorf("method value arg")
			}
			for name, m := range funcs {
				if strings.HasSuffix(name, "."+meth) {
					return parserTarget(m, sub, funcs, depth+1)
				}
			}
		}
	}
	return "", "", false, fmt.Errorf("no assignment recognised")
}

// exprString renders an expression compactly (for Sscanf post-processing fingerprints).
func exprString(e ast.Expr) string {
	switch x := e.(type) {
	case *ast.Ident:
		return x.Name
	case *ast.BasicLit:
		return x.Value
	case *ast.SelectorExpr:
		return exprString(x.X) + "." + x.Sel.Name
	case *ast.CallExpr:
		args := make([]string, len(x.Args))
		for i, a := range x.Args {
			args[i] = exprString(a)
		}
		return exprString(x.Fun) + "(" + strings.Join(args, ",") + ")"
	case *ast.BinaryExpr:
		return "(" + exprString(x.X) + x.Op.String() + exprString(x.Y) + ")"
	case *ast.ParenExpr:
		return exprString(x.X)
	case *ast.UnaryExpr:
		return x.Op.String() + exprString(x.X)
	case *ast.StarExpr:
		return "*" + exprString(x.X)
	case *ast.IndexExpr:
		return exprString(x.X) + "[" + exprString(x.Index) + "]"
	case *ast.SliceExpr:
		lo, hi := "", ""
		if x.Low != nil {
			lo = exprString(x.Low)
		}
		if x.High != nil {
			hi = exprString(x.High)
		}
		return exprString(x.X) + "[" + lo + ":" + hi + "]"
	}
	return fmt.Sprintf("<%T>", e)
}

// convBody translates `func f(v float64) float64 { return <expr> }` into a Lean Expr.
func convBody(fd *ast.FuncDecl) (string, error) {
	if len(fd.Body.List) != 1 || fd.Type.Params == nil || len(fd.Type.Params.List) != 1 || len(fd.Type.Params.List[0].Names) != 1 {
		return "", fmt.Errorf("unexpected shape")
	}
	param := fd.Type.Params.List[0].Names[0].Name
	rs, ok := fd.Body.List[0].(*ast.ReturnStmt)
	if !ok || len(rs.Results) != 1 {
		return "", fmt.Errorf("unexpected body")
	}
	return arithExpr(rs.Results[0], param)
}

func arithExpr(e ast.Expr, param string) (string, error) {
	switch x := e.(type) {
	case *ast.ParenExpr:
		return arithExpr(x.X, param)
	case *ast.Ident:
		if x.Name == param {
			return "Expr.v", nil
		}
		return fmt.Sprintf("(Expr.const %s)", leanStr(x.Name)), nil
	case *ast.BasicLit:
		d, err := decLit(x.Value)
		if err != nil {
			return "", err
		}
		return fmt.Sprintf("(Expr.lit %s)", d), nil
	case *ast.BinaryExpr:
		l, err := arithExpr(x.X, param)
		if err != nil {
			return "", err
		}
		r, err := arithExpr(x.Y, param)
		if err != nil {
			return "", err
		}
		op := map[token.Token]string{token.ADD: "add", token.SUB: "sub", token.MUL: "mul", token.QUO: "div"}[x.Op]
		if op == "" {
			return "", fmt.Errorf("unsupported operator %s", x.Op)
		}
		return fmt.Sprintf("(Expr.%s %s %s)", op, l, r), nil
	}
	return "", fmt.Errorf("unsupported expression %T", e)
}
