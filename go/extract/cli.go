package main

import (
	"fmt"
	"go/ast"
	"go/token"
	"os"
	"path/filepath"
	"sort"
	"strconv"
	"strings"

	"github.com/pelletier/go-toml/v2"
)

// CLI tables: every flag definition of cmd/tracktools/cmd (flag name, destination field path,
// kind, default, owning config section from annotate()), the exported fields of the structs
// the config sections are decoded onto, and the embedded default config file.

func init() {
	generators = append(generators, generator{name: "CLI", run: genCLI, stub: cliStub})
}

const cliPrelude = `import TrackVerif.Common.GenTypes
namespace TrackVerif.Gen.CLI
open TrackVerif.Gen
`

const cliStub = cliPrelude + `def extractOk : Bool := false
def commands : List CliCmd := []
def defaults : CliVal := .table []
end TrackVerif.Gen.CLI
`

func selectorPath(e ast.Expr) ([]string, bool) {
	switch t := e.(type) {
	case *ast.Ident:
		return []string{t.Name}, true
	case *ast.SelectorExpr:
		p, ok := selectorPath(t.X)
		if !ok {
			return nil, false
		}
		return append(p, t.Sel.Name), true
	}
	return nil, false
}

type cliFlag struct {
	name, kind, dflt string
	path             []string
}

func leanCliVal(v any) (string, error) {
	switch t := v.(type) {
	case string:
		return ".str " + leanStr(t), nil
	case bool:
		return fmt.Sprintf(".bool %v", t), nil
	case int64:
		return fmt.Sprintf(".num %s", leanStr(strconv.FormatInt(t, 10))), nil
	case float64:
		return fmt.Sprintf(".num %s", leanStr(strconv.FormatFloat(t, 'g', -1, 64))), nil
	case []any:
		var xs []string
		for _, e := range t {
			s, err := leanCliVal(e)
			if err != nil {
				return "", err
			}
			xs = append(xs, "("+s+")")
		}
		return ".list [" + strings.Join(xs, ", ") + "]", nil
	case map[string]any:
		keys := make([]string, 0, len(t))
		for k := range t {
			keys = append(keys, k)
		}
		sort.Strings(keys)
		var xs []string
		for _, k := range keys {
			s, err := leanCliVal(t[k])
			if err != nil {
				return "", err
			}
			// viper lower-cases every key
			xs = append(xs, fmt.Sprintf("(%s, %s)", leanStr(strings.ToLower(k)), s))
		}
		return ".table [" + strings.Join(xs, ", ") + "]", nil
	}
	return "", fmt.Errorf("unsupported toml value %T", v)
}

func genCLI(repo string) (string, error) {
	dir := filepath.Join(repo, "cmd", "tracktools", "cmd")
	p, err := loadDir(dir)
	if err != nil {
		return "", err
	}
	var b strings.Builder
	b.WriteString(cliPrelude)
	b.WriteString("def extractOk : Bool := true\n")

	// struct types of the package (exported fields with their type expressions)
	structs := map[string][][2]string{}
	for _, f := range p.files {
		for _, d := range f.Decls {
			gd, ok := d.(*ast.GenDecl)
			if !ok || gd.Tok != token.TYPE {
				continue
			}
			for _, s := range gd.Specs {
				ts := s.(*ast.TypeSpec)
				st, ok := ts.Type.(*ast.StructType)
				if !ok {
					continue
				}
				for _, fld := range st.Fields.List {
					var tn string
					switch t := fld.Type.(type) {
					case *ast.Ident:
						tn = t.Name
					case *ast.SelectorExpr:
						if x, ok := t.X.(*ast.Ident); ok {
							tn = x.Name + "." + t.Sel.Name
						}
					case *ast.ArrayType:
						if id, ok := t.Elt.(*ast.Ident); ok {
							tn = "[]" + id.Name
						} else {
							tn = "[]?"
						}
					case *ast.StarExpr:
						tn = "*"
					default:
						tn = "?"
					}
					for _, n := range fld.Names {
						structs[ts.Name.Name] = append(structs[ts.Name.Name], [2]string{n.Name, tn})
					}
				}
			}
		}
	}
	// gopro.Config lives in another package
	gp, err := loadDir(filepath.Join(repo, "pkg", "gopro"))
	if err != nil {
		return "", err
	}
	for _, f := range gp.files {
		for _, d := range f.Decls {
			gd, ok := d.(*ast.GenDecl)
			if !ok || gd.Tok != token.TYPE {
				continue
			}
			for _, s := range gd.Specs {
				ts := s.(*ast.TypeSpec)
				st, ok := ts.Type.(*ast.StructType)
				if !ok || ts.Name.Name != "Config" {
					continue
				}
				for _, fld := range st.Fields.List {
					tn := "?"
					switch t := fld.Type.(type) {
					case *ast.Ident:
						tn = t.Name
					case *ast.ArrayType:
						if id, ok := t.Elt.(*ast.Ident); ok {
							tn = "[]" + id.Name
						}
					}
					for _, n := range fld.Names {
						structs["gopro.Config"] = append(structs["gopro.Config"], [2]string{n.Name, tn})
					}
				}
			}
		}
	}

	// flag definitions per add* function
	type cmdInfo struct {
		fn, section, recvType string
		flags                 []cliFlag
	}
	var cmds []cmdInfo
	fns := p.funcs()
	var names []string
	for n := range fns {
		names = append(names, n)
	}
	sort.Strings(names)
	for _, n := range names {
		fd := fns[n]
		if fd.Body == nil || fd.Recv != nil {
			continue
		}
		ci := cmdInfo{fn: n}
		// the command struct variable: c := T{…}
		ast.Inspect(fd.Body, func(nd ast.Node) bool {
			as, ok := nd.(*ast.AssignStmt)
			if ok && len(as.Lhs) == 1 && len(as.Rhs) == 1 {
				if id, ok := as.Lhs[0].(*ast.Ident); ok && id.Name == "c" {
					if cl, ok := as.Rhs[0].(*ast.CompositeLit); ok {
						if t, ok := cl.Type.(*ast.Ident); ok {
							ci.recvType = t.Name
						}
					}
				}
			}
			call, ok := nd.(*ast.CallExpr)
			if !ok {
				return true
			}
			if id, ok := call.Fun.(*ast.Ident); ok && id.Name == "annotate" && len(call.Args) == 2 {
				if bl, ok := call.Args[1].(*ast.BasicLit); ok {
					ci.section, _ = strconv.Unquote(bl.Value)
				}
				return true
			}
			se, ok := call.Fun.(*ast.SelectorExpr)
			if !ok {
				return true
			}
			if x, ok := se.X.(*ast.Ident); !ok || x.Name != "fs" {
				return true
			}
			kinds := map[string]string{"StringVar": "string", "BoolVar": "bool", "Float64Var": "float", "IntVar": "int", "StringArrayVar": "strings", "Var": "date"}
			kind, ok := kinds[se.Sel.Name]
			if !ok {
				return true
			}
			if len(call.Args) < 3 {
				return true
			}
			ue, ok := call.Args[0].(*ast.UnaryExpr)
			if !ok || ue.Op != token.AND {
				return true
			}
			path, ok := selectorPath(ue.X)
			if !ok || path[0] != "c" {
				return true
			}
			nameLit, ok := call.Args[1].(*ast.BasicLit)
			if !ok {
				return true
			}
			fname, _ := strconv.Unquote(nameLit.Value)
			dflt := ""
			if kind != "date" {
				switch d := call.Args[2].(type) {
				case *ast.BasicLit:
					dflt = d.Value
					if d.Kind == token.STRING {
						dflt, _ = strconv.Unquote(d.Value)
					}
				case *ast.Ident:
					dflt = d.Name // false / nil
				}
			}
			ci.flags = append(ci.flags, cliFlag{name: fname, kind: kind, dflt: dflt, path: path[1:]})
			return true
		})
		if ci.section != "" {
			cmds = append(cmds, ci)
		}
	}
	if len(cmds) == 0 {
		return "", fmt.Errorf("no annotated flag sets found")
	}

	// option fields of a command: the exported fields of its struct, one level of nesting for
	// struct-typed fields declared in this package
	fieldsOf := func(typ string) []string {
		var res []string
		var walk func(t string, prefix []string, depth int)
		walk = func(t string, prefix []string, depth int) {
			for _, f := range structs[t] {
				if !ast.IsExported(f[0]) {
					continue
				}
				path := append(append([]string{}, prefix...), f[0])
				if _, isStruct := structs[f[1]]; isStruct && depth < 2 {
					walk(f[1], path, depth+1)
					continue
				}
				res = append(res, fmt.Sprintf("(%s, %s)", leanStrList(path), leanStr(f[1])))
			}
		}
		walk(typ, nil, 0)
		return res
	}

	b.WriteString("def commands : List CliCmd := [\n")
	for i, c := range cmds {
		// goproConvertCmd decodes onto its cfg field (gopro.Config)
		target := c.recvType
		strip := 0
		if fs := structs[c.recvType]; len(fs) == 1 && fs[0][0] == "cfg" {
			target = fs[0][1]
			strip = 1
		}
		var fl []string
		for _, f := range c.flags {
			fl = append(fl, fmt.Sprintf("⟨%s, %s, %s, %s⟩", leanStr(f.name), leanStrList(f.path[strip:]), leanStr(f.kind), leanStr(f.dflt)))
		}
		fmt.Fprintf(&b, "  ⟨%s, %s, [\n    %s],\n    [%s]⟩", leanStr(c.section), leanStr(target), strings.Join(fl, ",\n    "), strings.Join(fieldsOf(target), ", "))
		if i+1 < len(cmds) {
			b.WriteString(",")
		}
		b.WriteString("\n")
	}
	b.WriteString("]\n")

	// embedded default configuration
	raw, err := os.ReadFile(filepath.Join(dir, ".tracktools.toml"))
	if err != nil {
		return "", err
	}
	var cfg map[string]any
	if err := toml.Unmarshal(raw, &cfg); err != nil {
		return "", fmt.Errorf("default config: %w", err)
	}
	v, err := leanCliVal(cfg)
	if err != nil {
		return "", err
	}
	fmt.Fprintf(&b, "def defaults : CliVal := %s\n", v)
	b.WriteString("end TrackVerif.Gen.CLI\n")
	return b.String(), nil
}
