package main

import (
	"fmt"
	"go/ast"
	"go/token"
	"path/filepath"
	"reflect"
	"sort"
	"strconv"
	"strings"

	"golang.org/x/text/encoding/charmap"
)

// LapTimer schema: every struct's fields (Go type, xml name, attr / omitempty), every named
// type's underlying type, the string literals of every MarshalXML / UnmarshalXML / String /
// Parse method (format and scan strings, separators), the layout constants, the enum
// constants, the replacer pairs of Encoder.filter and the windows-1252 decode table of
// the charset reader's library.

func init() {
	generators = append(generators, generator{name: "LT", run: genLT, stub: ltStub})
}

const ltPrelude = `import TrackVerif.Common.GenTypes
namespace TrackVerif.Gen.LT
open TrackVerif.Gen
`

const ltStub = ltPrelude + `def extractOk : Bool := false
def structs : List (String × List LtField) := []
def named : List (String × LtType) := []
def methodLits : List (String × List String) := []
def consts : List (String × String) := []
def intEnums : List (String × String × Int) := []
def strEnums : List (String × String × String) := []
def replacer : List (String × String) := []
def marshalers : List String := []
def unmarshalers : List String := []
def cp1252 : List Nat := []
end TrackVerif.Gen.LT
`

func ltTypeExpr(e ast.Expr) (string, error) {
	switch t := e.(type) {
	case *ast.Ident:
		switch t.Name {
		case "int", "int64", "float64", "string", "bool":
			return fmt.Sprintf(".basic %s", leanStr(t.Name)), nil
		}
		return fmt.Sprintf(".named %s", leanStr(t.Name)), nil
	case *ast.StarExpr:
		s, err := ltTypeExpr(t.X)
		return "(.ptr (" + s + "))", err
	case *ast.ArrayType:
		if t.Len != nil {
			return "", fmt.Errorf("array type")
		}
		s, err := ltTypeExpr(t.Elt)
		return "(.slice (" + s + "))", err
	case *ast.SelectorExpr:
		if x, ok := t.X.(*ast.Ident); ok {
			return fmt.Sprintf(".named %s", leanStr(x.Name+"."+t.Sel.Name)), nil
		}
	case *ast.StructType:
		if t.Fields == nil || len(t.Fields.List) == 0 {
			return `.basic "struct{}"`, nil
		}
	}
	return "", fmt.Errorf("unsupported type expression %T", e)
}

// litsOf lists the string literals passed to calls in body, in source order, skipping
// error construction (fmt.Errorf / errors.New), which never reaches the output.
func litsOf(body *ast.BlockStmt, consts map[string]string) []string {
	var res []string
	var walk func(n ast.Node, skip bool)
	walk = func(n ast.Node, skip bool) {
		ast.Inspect(n, func(m ast.Node) bool {
			if m == nil {
				return false
			}
			if c, ok := m.(*ast.CallExpr); ok && m != n {
				sk := skip
				if se, ok := c.Fun.(*ast.SelectorExpr); ok {
					if x, ok := se.X.(*ast.Ident); ok && ((x.Name == "fmt" && se.Sel.Name == "Errorf") || x.Name == "errors") {
						sk = true
					}
				}
				walk(c, sk)
				return false
			}
			if skip {
				return true
			}
			switch v := m.(type) {
			case *ast.BasicLit:
				if v.Kind == token.STRING || v.Kind == token.CHAR {
					if s, err := strconv.Unquote(v.Value); err == nil {
						res = append(res, s)
					}
				}
			case *ast.Ident:
				if s, ok := consts[v.Name]; ok {
					res = append(res, s) // a named constant: its value
				}
			}
			return true
		})
	}
	// the outermost node is the body: literals directly in it (not inside a call) are kept too
	walk(body, false)
	return res
}

func genLT(repo string) (string, error) {
	p, err := loadDir(filepath.Join(repo, "pkg", "laptimer"))
	if err != nil {
		return "", err
	}
	var b strings.Builder
	b.WriteString(ltPrelude)
	b.WriteString("def extractOk : Bool := true\n")

	// constants
	consts := map[string]string{}
	for n, bl := range p.valueLits() {
		if bl.Kind == token.STRING {
			if s, err := strconv.Unquote(bl.Value); err == nil {
				consts[n] = s
			}
		}
	}

	type sdecl struct {
		name   string
		fields []string
	}
	var structs []sdecl
	var named []string
	var intEnums, strEnums []string
	for _, fn := range sortedKeys(p.files) {
		f := p.files[fn]
		if fn != "types.go" && fn != "enums.go" {
			continue // Encoder / Decoder plumbing, not document schema
		}
		for _, d := range f.Decls {
			gd, ok := d.(*ast.GenDecl)
			if !ok {
				continue
			}
			if gd.Tok == token.TYPE {
				for _, s := range gd.Specs {
					ts := s.(*ast.TypeSpec)
					if st, ok := ts.Type.(*ast.StructType); ok && st.Fields != nil && len(st.Fields.List) > 0 {
						sd := sdecl{name: ts.Name.Name}
						for _, fld := range st.Fields.List {
							te, err := ltTypeExpr(fld.Type)
							if err != nil {
								return "", fmt.Errorf("%s: %w", ts.Name.Name, err)
							}
							tag := ""
							if fld.Tag != nil {
								raw, _ := strconv.Unquote(fld.Tag.Value)
								tag = reflect.StructTag(raw).Get("xml")
							}
							parts := strings.Split(tag, ",")
							xmlName := parts[0]
							attr, omit := false, false
							for _, o := range parts[1:] {
								switch o {
								case "attr":
									attr = true
								case "omitempty":
									omit = true
								default:
									return "", fmt.Errorf("%s: unsupported xml tag option %q", ts.Name.Name, o)
								}
							}
							names := []string{}
							for _, n := range fld.Names {
								names = append(names, n.Name)
							}
							embedded := false
							if len(names) == 0 {
								embedded = true
								if id, ok := fld.Type.(*ast.Ident); ok {
									names = []string{id.Name}
								} else {
									return "", fmt.Errorf("%s: unsupported embedded field", ts.Name.Name)
								}
							}
							for _, n := range names {
								if !ast.IsExported(n) {
									continue // encoding/xml ignores unexported fields
								}
								if xmlName == "" && n != "XMLName" {
									xmlName = n
								}
								sd.fields = append(sd.fields, fmt.Sprintf("⟨%s, %s, %v, %v, %v, %s⟩", leanStr(n), leanStr(xmlName), attr, omit, embedded, te))
							}
						}
						structs = append(structs, sd)
					} else {
						te, err := ltTypeExpr(ts.Type)
						if err != nil {
							return "", fmt.Errorf("%s: %w", ts.Name.Name, err)
						}
						named = append(named, fmt.Sprintf("(%s, %s)", leanStr(ts.Name.Name), te))
					}
				}
			}
			if gd.Tok == token.CONST {
				// enum blocks: typed first entry with iota (optionally offset) or typed string constants
				var typ string
				iota0 := int64(0)
				isIota := false
				for i, s := range gd.Specs {
					vs := s.(*ast.ValueSpec)
					if vs.Type != nil {
						if id, ok := vs.Type.(*ast.Ident); ok {
							typ = id.Name
						}
					}
					if typ == "" {
						break
					}
					if len(vs.Values) == 1 {
						switch v := vs.Values[0].(type) {
						case *ast.Ident:
							if v.Name == "iota" {
								isIota, iota0 = true, 0
							}
						case *ast.BinaryExpr:
							if l, ok := v.X.(*ast.BasicLit); ok && v.Op == token.ADD {
								if r, ok := v.Y.(*ast.Ident); ok && r.Name == "iota" {
									n, _ := strconv.ParseInt(l.Value, 10, 64)
									isIota, iota0 = true, n
								}
							}
						case *ast.BasicLit:
							if v.Kind == token.STRING {
								sv, _ := strconv.Unquote(v.Value)
								strEnums = append(strEnums, fmt.Sprintf("(%s, %s, %s)", leanStr(typ), leanStr(vs.Names[0].Name), leanStr(sv)))
							}
							continue
						}
					}
					if isIota {
						intEnums = append(intEnums, fmt.Sprintf("(%s, %s, %d)", leanStr(typ), leanStr(vs.Names[0].Name), iota0+int64(i)))
					}
				}
			}
		}
	}

	b.WriteString("def structs : List (String × List LtField) := [\n")
	for i, s := range structs {
		fmt.Fprintf(&b, "  (%s, [\n    %s])", leanStr(s.name), strings.Join(s.fields, ",\n    "))
		if i+1 < len(structs) {
			b.WriteString(",")
		}
		b.WriteString("\n")
	}
	b.WriteString("]\n")
	fmt.Fprintf(&b, "def named : List (String × LtType) := [\n  %s]\n", strings.Join(named, ",\n  "))

	// methods
	fns := p.funcs()
	var mnames []string
	for n := range fns {
		mnames = append(mnames, n)
	}
	sort.Strings(mnames)
	var lits, marsh, unmarsh []string
	for _, n := range mnames {
		fd := fns[n]
		parts := strings.SplitN(n, ".", 2)
		if len(parts) != 2 || fd.Body == nil {
			continue
		}
		switch parts[1] {
		case "MarshalXML":
			marsh = append(marsh, leanStr(parts[0]))
		case "UnmarshalXML":
			unmarsh = append(unmarsh, leanStr(parts[0]))
		case "String", "Parse":
		default:
			continue
		}
		if parts[0] == "Encoder" || parts[0] == "Decoder" {
			continue
		}
		lits = append(lits, fmt.Sprintf("(%s, %s)", leanStr(n), leanStrList(litsOf(fd.Body, consts))))
	}
	fmt.Fprintf(&b, "def methodLits : List (String × List String) := [\n  %s]\n", strings.Join(lits, ",\n  "))
	fmt.Fprintf(&b, "def marshalers : List String := [%s]\n", strings.Join(marsh, ", "))
	fmt.Fprintf(&b, "def unmarshalers : List String := [%s]\n", strings.Join(unmarsh, ", "))

	var cs []string
	for _, n := range sortedKeys(consts) {
		cs = append(cs, fmt.Sprintf("(%s, %s)", leanStr(n), leanStr(consts[n])))
	}
	fmt.Fprintf(&b, "def consts : List (String × String) := [%s]\n", strings.Join(cs, ", "))
	fmt.Fprintf(&b, "def intEnums : List (String × String × Int) := [\n  %s]\n", strings.Join(intEnums, ",\n  "))
	fmt.Fprintf(&b, "def strEnums : List (String × String × String) := [\n  %s]\n", strings.Join(strEnums, ",\n  "))

	// replacer pairs of Encoder.filter
	filter, ok := fns["Encoder.filter"]
	if !ok {
		return "", fmt.Errorf("Encoder.filter not found")
	}
	var pairs []string
	found := false
	ast.Inspect(filter.Body, func(n ast.Node) bool {
		c, ok := n.(*ast.CallExpr)
		if !ok {
			return true
		}
		if se, ok := c.Fun.(*ast.SelectorExpr); ok && se.Sel.Name == "NewReplacer" {
			found = true
			var ss []string
			for _, a := range c.Args {
				bl, ok := a.(*ast.BasicLit)
				if !ok {
					found = false
					return false
				}
				s, _ := strconv.Unquote(bl.Value)
				ss = append(ss, s)
			}
			for i := 0; i+1 < len(ss); i += 2 {
				pairs = append(pairs, fmt.Sprintf("(%s, %s)", leanStr(ss[i]), leanStr(ss[i+1])))
			}
		}
		return true
	})
	if !found {
		return "", fmt.Errorf("strings.NewReplacer literal not found in Encoder.filter")
	}
	fmt.Fprintf(&b, "def replacer : List (String × String) := [%s]\n", strings.Join(pairs, ", "))

	// windows-1252 decode table of the library behind the charset reader
	var tbl []string
	for i := 0; i < 256; i++ {
		tbl = append(tbl, strconv.Itoa(int(charmap.Windows1252.DecodeByte(byte(i)))))
	}
	fmt.Fprintf(&b, "def cp1252 : List Nat := [%s]\n", strings.Join(tbl, ", "))
	b.WriteString("end TrackVerif.Gen.LT\n")
	return b.String(), nil
}

func sortedKeys[V any](m map[string]V) []string {
	ks := make([]string, 0, len(m))
	for k := range m {
		ks = append(ks, k)
	}
	sort.Strings(ks)
	return ks
}
