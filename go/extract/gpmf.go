package main

import (
	"fmt"
	"go/ast"
	"go/token"
	"path/filepath"
	"sort"
	"strconv"
	"strings"
)

func init() {
	generators = append(generators, generator{name: "GPMF", run: genGPMF, stub: gpmfStub})
}

const gpmfPrelude = `import TrackVerif.GPMF.Model
namespace TrackVerif.Gen.GPMF
open TrackVerif.GPMF
`

const gpmfStub = gpmfPrelude + `def extractOk : Bool := false
def tables : Tables := ⟨[], [], [], [], [], []⟩
end TrackVerif.Gen.GPMF
`

func genGPMF(repo string) (string, error) {
	p, err := loadDir(filepath.Join(repo, "pkg", "gopro", "gpmf"))
	if err != nil {
		return "", err
	}
	funcs := p.funcs()

	// types.go: const Name Type = 'c'
	typeChar := map[string]string{}
	strVar := map[string]string{} // keys.go: KeyX = "ABCD"; face.go consts
	intConst := map[string]string{}
	for _, f := range p.files {
		for _, d := range f.Decls {
			gd, ok := d.(*ast.GenDecl)
			if !ok || (gd.Tok != token.CONST && gd.Tok != token.VAR) {
				continue
			}
			for _, s := range gd.Specs {
				vs := s.(*ast.ValueSpec)
				for i, n := range vs.Names {
					if i >= len(vs.Values) {
						continue
					}
					bl, ok := vs.Values[i].(*ast.BasicLit)
					if !ok {
						continue
					}
					switch bl.Kind {
					case token.CHAR:
						c, _, _, err := strconv.UnquoteChar(bl.Value[1:len(bl.Value)-1], '\'')
						if err == nil {
							typeChar[n.Name] = string(c)
						}
					case token.STRING:
						sv, _ := strconv.Unquote(bl.Value)
						strVar[n.Name] = sv
					case token.INT:
						intConst[n.Name] = bl.Value
					}
				}
			}
		}
	}

	// element.go formatBasic: case TypeConst[, …]: return e.formatX()
	fb, ok := funcs["Element.formatBasic"]
	if !ok {
		return "", fmt.Errorf("formatBasic not found")
	}
	type trow struct{ ch, formatter string }
	var trows []trow
	var sw *ast.SwitchStmt
	ast.Inspect(fb.Body, func(n ast.Node) bool {
		if s, ok := n.(*ast.SwitchStmt); ok && sw == nil {
			sw = s
		}
		return true
	})
	if sw == nil {
		return "", fmt.Errorf("formatBasic: no switch")
	}
	for _, st := range sw.Body.List {
		cc := st.(*ast.CaseClause)
		if len(cc.Body) != 1 {
			continue
		}
		rs, ok := cc.Body[0].(*ast.ReturnStmt)
		if !ok || len(rs.Results) != 1 {
			continue
		}
		ce, ok := rs.Results[0].(*ast.CallExpr)
		if !ok {
			continue
		}
		se, ok := ce.Fun.(*ast.SelectorExpr)
		if !ok || !strings.HasPrefix(se.Sel.Name, "format") {
			continue
		}
		for _, le := range cc.List {
			id, ok := le.(*ast.Ident)
			if !ok {
				return "", fmt.Errorf("formatBasic: non-identifier case")
			}
			ch, ok := typeChar[id.Name]
			if !ok {
				return "", fmt.Errorf("formatBasic: unknown type constant %s", id.Name)
			}
			trows = append(trows, trow{ch, se.Sel.Name})
		}
	}
	width := func(formatter string) (int, error) {
		fd, ok := funcs["Element."+formatter]
		if !ok {
			return 0, fmt.Errorf("%s not found", formatter)
		}
		w := -1
		ast.Inspect(fd.Body, func(n ast.Node) bool {
			as, ok := n.(*ast.AssignStmt)
			if ok && as.Tok == token.DEFINE && len(as.Lhs) == 1 && len(as.Rhs) == 1 {
				if id, ok := as.Lhs[0].(*ast.Ident); ok && id.Name == "size" {
					if bl, ok := as.Rhs[0].(*ast.BasicLit); ok && bl.Kind == token.INT {
						w, _ = strconv.Atoi(bl.Value)
					}
				}
			}
			return true
		})
		switch formatter {
		case "formatInt8s", "formatUint8s":
			// byte formatters: scalar iff `e.size == 1`
			scalarOnSize := false
			ast.Inspect(fd.Body, func(n ast.Node) bool {
				if be, ok := n.(*ast.BinaryExpr); ok && be.Op == token.EQL && exprString(be.X) == "e.size" && exprString(be.Y) == "1" {
					scalarOnSize = true
				}
				return true
			})
			if !scalarOnSize {
				return 0, fmt.Errorf("%s: scalar rule is not `e.size == 1`", formatter)
			}
			return 1, nil
		case "formatStrings":
			return 0, nil
		}
		if w < 0 {
			return 0, fmt.Errorf("%s: no `size :=` literal", formatter)
		}
		return w, nil
	}

	var b strings.Builder
	b.WriteString(gpmfPrelude)
	b.WriteString("def extractOk : Bool := true\n")
	b.WriteString("def tables : Tables := {\n  types := [\n")
	for i, r := range trows {
		w, err := width(r.formatter)
		if err != nil {
			return "", err
		}
		sep := ","
		if i == len(trows)-1 {
			sep = ""
		}
		fmt.Fprintf(&b, "    ⟨'%s', %s, %d⟩%s\n", r.ch, leanStr(r.formatter), w, sep)
	}
	b.WriteString("  ]\n")

	// keys.go maps
	mapLit := func(name string) (*ast.CompositeLit, error) {
		for _, f := range p.files {
			for _, d := range f.Decls {
				gd, ok := d.(*ast.GenDecl)
				if !ok || gd.Tok != token.VAR {
					continue
				}
				for _, s := range gd.Specs {
					vs := s.(*ast.ValueSpec)
					for i, n := range vs.Names {
						if n.Name == name && i < len(vs.Values) {
							if cl, ok := vs.Values[i].(*ast.CompositeLit); ok {
								return cl, nil
							}
						}
					}
				}
			}
		}
		return nil, fmt.Errorf("map %s not found", name)
	}
	keyOf := func(e ast.Expr) (string, error) {
		switch k := e.(type) {
		case *ast.Ident:
			if v, ok := strVar[k.Name]; ok {
				return v, nil
			}
			return "", fmt.Errorf("unknown key variable %s", k.Name)
		case *ast.BasicLit:
			return strconv.Unquote(k.Value)
		}
		return "", fmt.Errorf("unsupported key expression")
	}
	kp, err := mapLit("keyParsers")
	if err != nil {
		return "", err
	}
	var kps []string
	for _, el := range kp.Elts {
		kv := el.(*ast.KeyValueExpr)
		k, err := keyOf(kv.Key)
		if err != nil {
			return "", err
		}
		v := ""
		if id, ok := kv.Value.(*ast.Ident); ok && id.Name != "nil" {
			v = id.Name
		}
		kps = append(kps, fmt.Sprintf("(%s, %s)", leanStr(k), leanStr(v)))
	}
	sort.Strings(kps)
	b.WriteString("  keyParsers := [\n    " + strings.Join(kps, ",\n    ") + "\n  ]\n")
	kn, err := mapLit("keyNames")
	if err != nil {
		return "", err
	}
	var kns []string
	for _, el := range kn.Elts {
		kv := el.(*ast.KeyValueExpr)
		k, err := keyOf(kv.Key)
		if err != nil {
			return "", err
		}
		v, err := keyOf(kv.Value)
		if err != nil {
			return "", err
		}
		kns = append(kns, fmt.Sprintf("(%s, %s)", leanStr(k), leanStr(v)))
	}
	sort.Strings(kns)
	b.WriteString("  keyNames := [\n    " + strings.Join(kns, ",\n    ") + "\n  ]\n")

	// struct field orders (flattening embedded structs)
	structFields := map[string][]string{}
	for _, f := range p.files {
		for _, d := range f.Decls {
			gd, ok := d.(*ast.GenDecl)
			if !ok || gd.Tok != token.TYPE {
				continue
			}
			for _, s := range gd.Specs {
				ts := s.(*ast.TypeSpec)
				st, ok := ts.Type.(*ast.StructType)
				if !ok {
					continue
				}
				var fs []string
				for _, fl := range st.Fields.List {
					if len(fl.Names) == 0 {
						fs = append(fs, "@"+recvName(fl.Type))
					}
					for _, n := range fl.Names {
						fs = append(fs, n.Name)
					}
				}
				structFields[ts.Name.Name] = fs
			}
		}
	}
	var flatten func(name string) []string
	flatten = func(name string) []string {
		var out []string
		for _, f := range structFields[name] {
			if strings.HasPrefix(f, "@") {
				out = append(out, flatten(f[1:])...)
			} else {
				out = append(out, f)
			}
		}
		return out
	}

	// sensor layouts: floatType[T](e, W, func(vals []float64) E { return E{F: vals[i], …} })
	var layouts []string
	for _, pn := range []string{"parseGPS", "parseAccel", "parseGyro", "parseMagnetometer", "parseWhiteBalanceRGB"} {
		fd, ok := funcs[pn]
		if !ok {
			return "", fmt.Errorf("%s not found", pn)
		}
		w := -1
		assign := map[string]int{}
		elem := ""
		ast.Inspect(fd.Body, func(n ast.Node) bool {
			ce, ok := n.(*ast.CallExpr)
			if !ok {
				return true
			}
			if ie, ok := ce.Fun.(*ast.IndexExpr); ok {
				if id, ok := ie.X.(*ast.Ident); ok && id.Name == "floatType" && len(ce.Args) == 3 {
					if bl, ok := ce.Args[1].(*ast.BasicLit); ok {
						w, _ = strconv.Atoi(bl.Value)
					}
					ast.Inspect(ce.Args[2], func(m ast.Node) bool {
						if cl, ok := m.(*ast.CompositeLit); ok {
							elem = recvName(cl.Type)
							for _, el := range cl.Elts {
								kv, ok := el.(*ast.KeyValueExpr)
								if !ok {
									continue
								}
								ix, ok := kv.Value.(*ast.IndexExpr)
								if !ok {
									continue
								}
								if bl, ok := ix.Index.(*ast.BasicLit); ok {
									i, _ := strconv.Atoi(bl.Value)
									assign[exprString(kv.Key)] = i
								}
							}
						}
						return true
					})
				}
			}
			return true
		})
		if w < 0 || elem == "" {
			return "", fmt.Errorf("%s: floatType call not recognised", pn)
		}
		var order []string
		for _, f := range flatten(elem) {
			if f == "Offset" {
				continue
			}
			i, ok := assign[f]
			if !ok {
				return "", fmt.Errorf("%s: field %s not assigned", pn, f)
			}
			order = append(order, strconv.Itoa(i))
		}
		layouts = append(layouts, fmt.Sprintf("(%s, %d, [%s])", leanStr(pn), w, strings.Join(order, ", ")))
	}
	b.WriteString("  layouts := [\n    " + strings.Join(layouts, ",\n    ") + "\n  ]\n")

	// face.go: faceTypeDefs map and the parseFaceN offsets
	ft, err := mapLit("faceTypeDefs")
	if err != nil {
		return "", err
	}
	layoutOf := map[string]int{"faceDefHero6": 6, "faceDefHero7": 7, "faceDefHero8": 8, "faceDefHero10": 10}
	var fdefs []string
	for _, el := range ft.Elts {
		kv := el.(*ast.KeyValueExpr)
		kid, ok1 := kv.Key.(*ast.Ident)
		vid, ok2 := kv.Value.(*ast.Ident)
		if !ok1 || !ok2 {
			return "", fmt.Errorf("faceTypeDefs: unexpected entry")
		}
		fdefs = append(fdefs, fmt.Sprintf("(%s, %s, %d)", leanStr(strVar[kid.Name]), intConst[vid.Name], layoutOf[kid.Name]))
	}
	sort.Strings(fdefs)
	b.WriteString("  faceDefs := [\n    " + strings.Join(fdefs, ",\n    ") + "\n  ]\n")

	type ffield struct {
		off, w int
		float  bool
	}
	var faceAssign func(fn string) (map[string]ffield, error)
	faceAssign = func(fn string) (map[string]ffield, error) {
		fd, ok := funcs[fn]
		if !ok {
			return nil, fmt.Errorf("%s not found", fn)
		}
		res := map[string]ffield{}
		for _, st := range fd.Body.List {
			switch s := st.(type) {
			case *ast.ExprStmt:
				// parseFace6(&f.Face6, raw)
				if ce, ok := s.X.(*ast.CallExpr); ok {
					if id, ok := ce.Fun.(*ast.Ident); ok && strings.HasPrefix(id.Name, "parseFace") {
						sub, err := faceAssign(id.Name)
						if err != nil {
							return nil, err
						}
						for k, v := range sub {
							res[k] = v
						}
					}
				}
			case *ast.AssignStmt:
				if len(s.Lhs) != 1 || len(s.Rhs) != 1 {
					continue
				}
				se, ok := s.Lhs[0].(*ast.SelectorExpr)
				if !ok {
					continue
				}
				rhs := exprString(s.Rhs[0])
				ff := ffield{}
				if strings.HasPrefix(rhs, "math.Float32frombits(") {
					ff.float = true
					rhs = strings.TrimSuffix(strings.TrimPrefix(rhs, "math.Float32frombits("), ")")
				}
				switch {
				case strings.HasPrefix(rhs, "byteOrder.Uint32("):
					ff.w = 4
					rhs = strings.TrimSuffix(strings.TrimPrefix(rhs, "byteOrder.Uint32("), ")")
				case strings.HasPrefix(rhs, "byteOrder.Uint16("):
					ff.w = 2
					rhs = strings.TrimSuffix(strings.TrimPrefix(rhs, "byteOrder.Uint16("), ")")
				default:
					ff.w = 1
				}
				switch {
				case rhs == "raw":
					ff.off = 0
				case strings.HasPrefix(rhs, "raw[") && strings.HasSuffix(rhs, ":]"):
					ff.off, err = strconv.Atoi(rhs[4 : len(rhs)-2])
				case strings.HasPrefix(rhs, "raw[") && strings.HasSuffix(rhs, "]"):
					ff.off, err = strconv.Atoi(rhs[4 : len(rhs)-1])
				default:
					return nil, fmt.Errorf("%s: unrecognised source %q", fn, rhs)
				}
				if err != nil {
					return nil, err
				}
				res[se.Sel.Name] = ff
			}
		}
		return res, nil
	}
	var ffs []string
	for _, lay := range []struct {
		n      int
		fn, ty string
	}{{6, "parseFace6", "Face6"}, {7, "parseFace7", "Face7"}, {8, "parseFace8", "Face8"}, {10, "parseFace10", "Face10"}} {
		as, err := faceAssign(lay.fn)
		if err != nil {
			return "", err
		}
		var fs []string
		for _, f := range flatten(lay.ty) {
			a, ok := as[f]
			if !ok {
				return "", fmt.Errorf("%s: field %s not assigned", lay.fn, f)
			}
			fs = append(fs, fmt.Sprintf("(%d, %d, %v)", a.off, a.w, a.float))
		}
		ffs = append(ffs, fmt.Sprintf("(%d, [%s])", lay.n, strings.Join(fs, ", ")))
	}
	b.WriteString("  faceFields := [\n    " + strings.Join(ffs, ",\n    ") + "\n  ]\n}\n")
	b.WriteString("end TrackVerif.Gen.GPMF\n")
	return b.String(), nil
}
